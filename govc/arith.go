package main

import (
	"fmt"
	"go/token"
	"go/types"

	"golang.org/x/tools/go/ssa"
)

// convInt converts integer term t to integer sort to (Go conversion
// semantics: truncation / sign or zero extension).
func (fv *FuncVC) convInt(t Term, to Sort) Term {
	if t.Sort.Kind != KInt {
		fv.unsupported("integer conversion of %s", t.Sort)
	}
	from := t.Sort
	r := Term{Sort: to, Go: nil}
	if fv.Mode == ModeBV {
		switch {
		case from.W == to.W:
			r.S = t.S
		case from.W > to.W:
			r.S = fmt.Sprintf("((_ extract %d 0) %s)", to.W-1, t.S)
		case from.Signed:
			r.S = fmt.Sprintf("((_ sign_extend %d) %s)", to.W-from.W, t.S)
		default:
			r.S = fmt.Sprintf("((_ zero_extend %d) %s)", to.W-from.W, t.S)
		}
		return r
	}
	// int mode: exact modular semantics unless the source range fits
	fits := false
	if from.Signed == to.Signed && from.W <= to.W {
		fits = true
	}
	if !from.Signed && to.Signed && from.W < to.W {
		fits = true
	}
	if fits {
		r.S = t.S
		return r
	}
	m := app("mod", t.S, pow2(to.W))
	if !to.Signed {
		r.S = m
		return r
	}
	r.S = fmt.Sprintf("(let ((cm %s)) (ite (>= cm %s) (- cm %s) cm))", m, pow2(to.W-1), pow2(to.W))
	return r
}

// tdiv / tmod: Go truncated division on SMT integers.
func tdiv(a, b string) string {
	return fmt.Sprintf("(let ((ta %s) (tb %s)) (ite (>= ta 0) (div ta tb) (- (div (- ta) tb))))", a, b)
}
func tmod(a, b string) string {
	return fmt.Sprintf("(let ((ta %s) (tb %s)) (ite (>= ta 0) (mod ta tb) (- (mod (- ta) tb))))", a, b)
}

func isPow2Minus1(v int64) (int, bool) {
	if v < 0 {
		return 0, false
	}
	k := 0
	for x := v; x > 0; x >>= 1 {
		if x&1 == 0 {
			return 0, false
		}
		k++
	}
	return k, true
}

// intBin builds x op y for integer terms of the same sort; shifts take a
// count of any integer sort. lit reports a constant right operand.
func (fv *FuncVC) intBin(op token.Token, x, y Term, pos token.Pos, ylit *int64, xlit *int64) Term {
	s := x.Sort
	r := Term{Sort: s}
	if fv.Mode == ModeBV {
		switch op {
		case token.ADD:
			r.S = app("bvadd", x.S, y.S)
		case token.SUB:
			r.S = app("bvsub", x.S, y.S)
		case token.MUL:
			r.S = app("bvmul", x.S, y.S)
		case token.QUO:
			fv.oblige("div", "zero", nil, pos, smtNot(app("=", y.S, intLit(0, s, fv.Mode))), "")
			if s.Signed {
				r.S = app("bvsdiv", x.S, y.S)
			} else {
				r.S = app("bvudiv", x.S, y.S)
			}
		case token.REM:
			fv.oblige("div", "zero", nil, pos, smtNot(app("=", y.S, intLit(0, s, fv.Mode))), "")
			if s.Signed {
				r.S = app("bvsrem", x.S, y.S)
			} else {
				r.S = app("bvurem", x.S, y.S)
			}
		case token.AND:
			r.S = app("bvand", x.S, y.S)
		case token.OR:
			r.S = app("bvor", x.S, y.S)
		case token.XOR:
			r.S = app("bvxor", x.S, y.S)
		case token.AND_NOT:
			r.S = app("bvand", x.S, app("bvnot", y.S))
		case token.SHL, token.SHR:
			// bring the count to the width of x; counts >= width give 0 / sign
			var cnt string
			big := "false"
			switch {
			case y.Sort.W == s.W:
				cnt = y.S
			case y.Sort.W < s.W:
				cnt = fmt.Sprintf("((_ zero_extend %d) %s)", s.W-y.Sort.W, y.S)
			default:
				cnt = fmt.Sprintf("((_ extract %d 0) %s)", s.W-1, y.S)
				big = app("bvuge", y.S, intLit(int64(s.W), y.Sort, fv.Mode))
			}
			var sh string
			if op == token.SHL {
				sh = app("bvshl", x.S, cnt)
			} else if s.Signed {
				sh = app("bvashr", x.S, cnt)
			} else {
				sh = app("bvlshr", x.S, cnt)
			}
			if big == "false" {
				r.S = sh
			} else {
				over := intLit(0, s, fv.Mode)
				if op == token.SHR && s.Signed {
					over = app("bvashr", x.S, intLit(int64(s.W-1), s, fv.Mode))
				}
				r.S = fmt.Sprintf("(ite %s %s %s)", big, over, sh)
			}
			if y.Sort.Signed {
				fv.oblige("shift", "negative", nil, pos, app("bvsge", y.S, intLit(0, y.Sort, fv.Mode)), "")
			}
		default:
			fv.unsupported("integer op %s", op)
		}
		return r
	}
	// int mode
	switch op {
	case token.ADD:
		r.S = app("+", x.S, y.S)
		fv.ovfCheck(r, pos, "add")
	case token.SUB:
		r.S = app("-", x.S, y.S)
		fv.ovfCheck(r, pos, "sub")
	case token.MUL:
		r.S = app("*", x.S, y.S)
		fv.ovfCheck(r, pos, "mul")
	case token.QUO:
		fv.oblige("div", "zero", nil, pos, smtNot(app("=", y.S, "0")), "")
		r.S = tdiv(x.S, y.S)
	case token.REM:
		fv.oblige("div", "zero", nil, pos, smtNot(app("=", y.S, "0")), "")
		r.S = tmod(x.S, y.S)
	case token.AND:
		if ylit != nil {
			if k, ok := isPow2Minus1(*ylit); ok {
				r.S = app("mod", x.S, pow2(k))
				return r
			}
		}
		if xlit != nil {
			if k, ok := isPow2Minus1(*xlit); ok {
				r.S = app("mod", y.S, pow2(k))
				return r
			}
		}
		r = fv.uninterpBit("and", x, y)
	case token.OR:
		r = fv.uninterpBit("or", x, y)
		// c | x == c + x when x fits below the lowest set bit of the constant c
		for _, pr := range [][2]interface{}{{ylit, x}, {xlit, y}} {
			lit, _ := pr[0].(*int64)
			other := pr[1].(Term)
			if lit != nil && *lit > 0 {
				k := 0
				for (*lit>>uint(k))&1 == 0 {
					k++
				}
				fv.assert(smtImp(smtAnd(app("<=", "0", other.S), app("<", other.S, pow2(k))), app("=", r.S, app("+", other.S, fmt.Sprint(*lit)))))
			}
		}
	case token.XOR:
		r = fv.uninterpBit("xor", x, y)
	case token.AND_NOT:
		r = fv.uninterpBit("andnot", x, y)
	case token.SHL:
		if ylit != nil && *ylit >= 0 && *ylit < 64 {
			m := app("*", x.S, pow2(int(*ylit)))
			if !s.Signed {
				r.S = app("mod", m, pow2(s.W))
			} else {
				r.S = m
				fv.ovfCheck(r, pos, "shl")
			}
			return r
		}
		r = fv.uninterpBit("shl", x, y)
	case token.SHR:
		if ylit != nil && *ylit >= 0 && *ylit < 64 {
			r.S = app("div", x.S, pow2(int(*ylit)))
			return r
		}
		r = fv.uninterpBit("shr", x, y)
	default:
		fv.unsupported("integer op %s", op)
	}
	return r
}

func (fv *FuncVC) uninterpBit(name string, x, y Term) Term {
	fn := "bit" + name
	fv.declareFun(fn, []string{"Int", "Int"}, "Int")
	r := Term{S: app(fn, x.S, y.S), Sort: x.Sort}
	fv.assert(rangeAssume(r.S, x.Sort))
	fv.warn("bit operation %s in arith int is uninterpreted", name)
	return r
}

func (fv *FuncVC) intCmp(op token.Token, x, y Term) string {
	if fv.Mode == ModeBV {
		sg := x.Sort.Signed
		switch op {
		case token.EQL:
			return app("=", x.S, y.S)
		case token.NEQ:
			return smtNot(app("=", x.S, y.S))
		case token.LSS:
			if sg {
				return app("bvslt", x.S, y.S)
			}
			return app("bvult", x.S, y.S)
		case token.LEQ:
			if sg {
				return app("bvsle", x.S, y.S)
			}
			return app("bvule", x.S, y.S)
		case token.GTR:
			if sg {
				return app("bvsgt", x.S, y.S)
			}
			return app("bvugt", x.S, y.S)
		case token.GEQ:
			if sg {
				return app("bvsge", x.S, y.S)
			}
			return app("bvuge", x.S, y.S)
		}
	}
	switch op {
	case token.EQL:
		return app("=", x.S, y.S)
	case token.NEQ:
		return smtNot(app("=", x.S, y.S))
	case token.LSS:
		return app("<", x.S, y.S)
	case token.LEQ:
		return app("<=", x.S, y.S)
	case token.GTR:
		return app(">", x.S, y.S)
	case token.GEQ:
		return app(">=", x.S, y.S)
	}
	fv.unsupported("comparison %s", op)
	return ""
}

func constInt(v ssa.Value) *int64 {
	c, ok := v.(*ssa.Const)
	if !ok || c.Value == nil {
		return nil
	}
	if b, ok := c.Type().Underlying().(*types.Basic); !ok || b.Info()&types.IsInteger == 0 {
		return nil
	}
	x := c.Int64()
	return &x
}

func (fv *FuncVC) binop(in *ssa.BinOp) Term {
	x := fv.term(in.X)
	y := fv.term(in.Y)
	rt := in.Type()
	isCmp := false
	switch in.Op {
	case token.EQL, token.NEQ, token.LSS, token.LEQ, token.GTR, token.GEQ:
		isCmp = true
	}
	switch x.Sort.Kind {
	case KInt:
		if isCmp {
			return Term{S: fv.intCmp(in.Op, x, y), Sort: SBool, Go: rt}
		}
		r := fv.intBin(in.Op, x, y, in.Pos(), constInt(in.Y), constInt(in.X))
		r.Go = rt
		return r
	case KBool:
		switch in.Op {
		case token.EQL:
			return Term{S: app("=", x.S, y.S), Sort: SBool, Go: rt}
		case token.NEQ:
			return Term{S: smtNot(app("=", x.S, y.S)), Sort: SBool, Go: rt}
		}
	case KRef, KIface, KStruct, KOpaque, KArray:
		switch in.Op {
		case token.EQL:
			return Term{S: app("=", x.S, y.S), Sort: SBool, Go: rt}
		case token.NEQ:
			return Term{S: smtNot(app("=", x.S, y.S)), Sort: SBool, Go: rt}
		}
	case KBytes:
		// []byte compared with nil
		if _, isSlice := in.X.Type().Underlying().(*types.Slice); isSlice && isCmp {
			isnil := app("=", fv.baseOf(x), "0")
			if c, ok := in.X.(*ssa.Const); ok && c.Value == nil {
				isnil = app("=", fv.baseOf(y), "0")
			}
			if in.Op == token.NEQ {
				isnil = smtNot(isnil)
			}
			return Term{S: isnil, Sort: SBool, Go: rt}
		}
		switch in.Op {
		case token.EQL:
			return Term{S: fv.strEq(x, y), Sort: SBool, Go: rt}
		case token.NEQ:
			return Term{S: smtNot(fv.strEq(x, y)), Sort: SBool, Go: rt}
		case token.ADD:
			return fv.strConcat(x, y, rt)
		default:
			fv.declareFun("strlt", []string{"Bytes", "Bytes"}, "Bool")
			lt := func(a, b Term) string { return app("strlt", a.S, b.S) }
			switch in.Op {
			case token.LSS:
				return Term{S: lt(x, y), Sort: SBool, Go: rt}
			case token.GTR:
				return Term{S: lt(y, x), Sort: SBool, Go: rt}
			case token.LEQ:
				return Term{S: smtNot(lt(y, x)), Sort: SBool, Go: rt}
			case token.GEQ:
				return Term{S: smtNot(lt(x, y)), Sort: SBool, Go: rt}
			}
		}
	case KSlice:
		// only comparison with nil is legal Go
		if isCmp {
			isnil := app("=", fv.baseOf(x), "0")
			if c, ok := in.X.(*ssa.Const); ok && c.Value == nil {
				isnil = app("=", fv.baseOf(y), "0")
			}
			if in.Op == token.NEQ {
				isnil = smtNot(isnil)
			}
			return Term{S: isnil, Sort: SBool, Go: rt}
		}
	case KFloat:
		if isCmp {
			name := map[token.Token]string{token.EQL: "feq", token.NEQ: "feq", token.LSS: "flt", token.LEQ: "fle", token.GTR: "flt", token.GEQ: "fle"}[in.Op]
			a, b := x, y
			if in.Op == token.GTR || in.Op == token.GEQ {
				a, b = y, x
			}
			fn := fmt.Sprintf("%s%d", name, x.Sort.W)
			if fv.fp {
				fv.ensureSort(x.Sort)
				fv.fpDefine(fn, []string{x.Sort.smt(fv.Mode), x.Sort.smt(fv.Mode)}, "Bool", map[string]string{"feq": "(fp.eq x0 x1)", "flt": "(fp.lt x0 x1)", "fle": "(fp.leq x0 x1)"}[name])
			}
			fv.declareFun(fn, []string{x.Sort.smt(fv.Mode), x.Sort.smt(fv.Mode)}, "Bool")
			r := app(fn, a.S, b.S)
			if in.Op == token.NEQ {
				r = smtNot(r)
			}
			return Term{S: r, Sort: SBool, Go: rt}
		}
		name := map[token.Token]string{token.ADD: "fadd", token.SUB: "fsub", token.MUL: "fmul", token.QUO: "fdiv"}[in.Op]
		if name != "" {
			return fv.floatOp(name, rt, x, y)
		}
	}
	fv.unsupported("binary op %s on %s at %s", in.Op, x.Sort, fv.P.relPos(in.Pos()))
	return Term{}
}

// isNilBytesCmp: comparing []byte with nil
func (fv *FuncVC) strEq(x, y Term) string {
	// constant empty string: length test
	for v, n := range fv.strConsts {
		if v == "" && (n == x.S || n == y.S) {
			o := x
			if n == x.S {
				o = y
			}
			return app("=", fv.lenOf(o), fv.ilit(0))
		}
	}
	// constant string: explicit expansion
	for v, n := range fv.strConsts {
		if n == x.S || n == y.S {
			o := x
			if n == x.S {
				o = y
			}
			cs := []string{app("=", fv.lenOf(o), fv.ilit(int64(len(v))))}
			for i := 0; i < len(v); i++ {
				cs = append(cs, app("=", fv.elemAt(o, fv.ilit(int64(i))), intLit(int64(v[i]), SByte, fv.Mode)))
			}
			return smtAnd(cs...)
		}
	}
	fv.declareFun("streq", []string{"Bytes", "Bytes"}, "Bool")
	e := app("streq", x.S, y.S)
	_ = idxSort
	key := "streq:" + x.S + ":" + y.S
	if !fv.declared[key] {
		fv.declared[key] = true
		// streq => same length and content; identical value => streq
		fv.assert(smtImp(e, smtAnd(app("=", fv.lenOf(x), fv.lenOf(y)),
			fv.forallCopy(x, fv.ilit(0), y, fv.ilit(0), fv.lenOf(x)))))
		fv.assert(smtImp(app("=", x.S, y.S), e))
		fv.assert(smtImp(smtAnd(app("=", fv.lenOf(x), fv.ilit(0)), app("=", fv.lenOf(y), fv.ilit(0))), e))
	}
	return e
}

func (fv *FuncVC) strConcat(x, y Term, rt types.Type) Term {
	r := fv.fresh("concat", SBytes)
	r.Go = rt
	ks := idxSort(fv.Mode)
	z := fv.ilit(0)
	fv.assert(smtAnd(app("=", fv.lenOf(r), fv.iadd(fv.lenOf(x), fv.lenOf(y))), app("=", fv.offOf(r), z), app("=", fv.capOf(r), fv.lenOf(r)), app(">=", fv.baseOf(r), "0"),
		fv.forallCopy(r, z, x, z, fv.lenOf(x)),
		fv.forallCopy(r, fv.lenOf(x), y, z, fv.lenOf(y))))
	_ = ks
	return r
}

func (fv *FuncVC) convert(in *ssa.Convert) {
	x := fv.operand(in.X)
	from := in.X.Type()
	to := in.Type()
	fs, ts := fv.sortOf(from), fv.sortOf(to)
	switch {
	case fs.Kind == KInt && ts.Kind == KInt:
		r := fv.convInt(fv.asTerm(x, from), ts)
		r.Go = to
		fv.vals[in] = Val{T: r}
	case fs.Kind == KBytes && ts.Kind == KBytes:
		// string <-> []byte: same content, fresh storage
		xt := fv.asTerm(x, from)
		_, toStr := to.Underlying().(*types.Basic)
		r := fv.fresh("strconv", SBytes)
		r.Go = to
		ref := "0"
		if !toStr {
			ref = fv.newRef("convbase", to).S
		}
		fv.assert(smtAnd(app("=", fv.lenOf(r), fv.lenOf(xt)), app("=", fv.arrOf(r), fv.arrOf(xt)), app("=", fv.offOf(r), fv.offOf(xt)), app("=", fv.capOf(r), fv.lenOf(xt)), app("=", fv.baseOf(r), ref),
			app("=", app("Bytes_g1", r.S), app("Bytes_g1", xt.S)), app("=", app("Bytes_g2", r.S), app("Bytes_g2", xt.S)), app("=", app("Bytes_g3", r.S), app("Bytes_g3", xt.S))))
		fv.vals[in] = Val{T: r}
	case fs.Kind == KRef && ts.Kind == KRef:
		// unsafe.Pointer conversions keep the identity
		if x.LV != nil {
			fv.vals[in] = x
			return
		}
		t := x.T
		t.Go = to
		fv.vals[in] = Val{T: t}
	case fs.Kind == KInt && ts.Kind == KFloat, fs.Kind == KFloat && ts.Kind == KInt, fs.Kind == KFloat && ts.Kind == KFloat:
		r := fv.floatOp("fconv", to, fv.asTerm(x, from))
		if ts.Kind == KInt && fv.Mode == ModeInt {
			fv.assert(rangeAssume(r.S, ts))
		}
		fv.vals[in] = Val{T: r}
	case fs.Kind == KInt && ts.Kind == KBytes:
		// string(rune)
		t := fv.freshWF("runestr", to)
		t.Go = to
		fv.vals[in] = Val{T: t}
	default:
		fv.unsupported("conversion %s -> %s at %s", from, to, fv.P.relPos(in.Pos()))
	}
}

func (fv *FuncVC) makeInterface(in *ssa.MakeInterface) {
	xt := in.X.Type()
	x := fv.operand(in.X)
	tag := fv.tagOf(xt)
	var ref string
	if pointerShaped(xt) {
		ref = fv.asTerm(x, xt).S
	} else {
		b, u := fv.boxFuncs(xt)
		v := fv.asTerm(x, xt)
		ref = app(b, v.S)
		fv.assert(app("=", app(u, ref), v.S))
	}
	fv.vals[in] = Val{T: Term{S: fmt.Sprintf("(mk_Iface %d %s)", tag, ref), Sort: SIface, Go: in.Type()}}
}

func (fv *FuncVC) typeAssert(in *ssa.TypeAssert) {
	x := fv.term(in.X)
	at := in.AssertedType
	var ok string
	var val Term
	if _, isIface := at.Underlying().(*types.Interface); isIface {
		name := "impl_" + sanitize(types.TypeString(at, func(p *types.Package) string { return p.Name() }))
		fv.declareFun(name, []string{"Int"}, "Bool")
		ok = smtAnd(smtNot(app("=", app("Iface_tag", x.S), "0")), app(name, app("Iface_tag", x.S)))
		if it := at.Underlying().(*types.Interface); it.NumMethods() == 0 {
			ok = smtNot(app("=", app("Iface_tag", x.S), "0"))
		}
		// facts about known concrete types are added lazily
		key := "implfacts:" + name
		if !fv.declared[key] {
			fv.declared[key] = true
		}
		fv.implAsserted(at, name)
		val = Term{S: x.S, Sort: SIface, Go: at}
	} else {
		tag := fv.tagOf(at)
		ok = app("=", app("Iface_tag", x.S), fmt.Sprint(tag))
		if pointerShaped(at) {
			val = Term{S: app("Iface_ref", x.S), Sort: fv.sortOf(at), Go: at}
		} else {
			_, u := fv.boxFuncs(at)
			val = Term{S: app(u, app("Iface_ref", x.S)), Sort: fv.sortOf(at), Go: at}
		}
	}
	tinv := "true"
	if pred, has := fv.P.CS.TypeInvs[types.TypeString(at, nil)]; has {
		if sf := fv.P.CS.Specs[pred]; sf != nil {
			env := fv.newEnv(fv.cur, fv.entry)
			tinv = env.specCall(sf, []Term{val}).S
			fv.trustedUse["every "+types.TypeString(at, nil)+" value handed to zerolog satisfies "+pred+" (the property's stated exclusion of invalid caller-supplied fragments)"] = true
		}
	}
	if in.CommaOk {
		okT := fv.fresh("ok", SBool)
		fv.assert(app("=", okT.S, ok))
		// on failure the value is the zero value
		v := fv.fresh("ta", val.Sort)
		v.Go = at
		fv.assert(smtImp(okT.S, app("=", v.S, val.S)))
		fv.assert(smtImp(okT.S, tinv))
		fv.assert(smtImp(smtNot(okT.S), app("=", v.S, fv.zero(at).S)))
		fv.assert(fv.wf(v, at))
		fv.vals[in] = Val{Tuple: []Val{{T: v}, {T: okT}}}
		return
	}
	fv.oblige("typeassert", "", nil, in.Pos(), ok, "")
	v := fv.fresh("ta", val.Sort)
	v.Go = at
	fv.assume(app("=", v.S, val.S))
	fv.assume(tinv)
	fv.assert(fv.wf(v, at))
	fv.vals[in] = Val{T: v}
}

// implAsserted records, for every concrete type tagged so far and later,
// whether it implements the interface; done at the end in finishImpl.
type implReq struct {
	iface types.Type
	fn    string
}

var _ = implReq{}

func (fv *FuncVC) implAsserted(at types.Type, fn string) {
	save := fv.inBlocks
	fv.inBlocks = false
	defer func() { fv.inBlocks = save }()
	// assert facts for tags known now; tags introduced later are handled
	// because tagOf is also called from here for every known tag type
	it := at.Underlying().(*types.Interface)
	for i, t := range fv.tagTypes {
		k := fmt.Sprintf("implfact:%s:%d", fn, i+1)
		if fv.declared[k] {
			continue
		}
		fv.declared[k] = true
		if types.Implements(t, it) {
			fv.assert(app(fn, fmt.Sprint(i+1)))
		} else {
			fv.assert(smtNot(app(fn, fmt.Sprint(i+1))))
		}
	}
}
