package main

import (
	"fmt"
	"go/token"
	"go/types"
	"sort"
	"strings"

	"golang.org/x/tools/go/ssa"
)

func init() { sweepTable["callerframes"] = sweepCallerFrames }

// sweepCallerFrames (C19). runtime.Caller(k) (trusted) reports the frame k
// levels above the function that calls it. For every acyclic call path
//
//	E -> f1 -> ... -> (*Event).caller
//
// from a user-callable entry E of packages zerolog and zerolog/log (the
// interface edge hook.Run -> callerHook.Run resolved), the argument finally
// passed to runtime.Caller -- the skip handed to caller() at the last call
// site plus every CallerSkipFrame(c) performed on the path -- must equal the
// number of zerolog frames on that path plus one (the user's statement), plus
// whatever the user asked to skip (Caller(k), CallerWithSkipFrameCount(2+k)).
// Each path yields one arithmetic obligation, discharged by the SMT back end
// with CallerSkipFrameCount symbolic (default 2; raising it by d moves every
// site that is based on the global by d frames).

type linForm struct {
	c     int64
	csfc  int64 // coefficient of the global CallerSkipFrameCount
	k     int64 // coefficient of the user's skip argument of Event.Caller
	hook  int64 // coefficient of callerHook.callerSkipFrameCount
	other bool  // something the evaluator does not understand
	cond  string
}

func (l linForm) String() string {
	return fmt.Sprintf("%d + %d*CallerSkipFrameCount + %d*userSkip + %d*hookSkip", l.c, l.csfc, l.k, l.hook)
}

func evalLin(v ssa.Value, depth int) []linForm {
	if depth > 8 {
		return []linForm{{other: true}}
	}
	switch x := v.(type) {
	case *ssa.Const:
		if x.Value == nil {
			return []linForm{{other: true}}
		}
		return []linForm{{c: x.Int64()}}
	case *ssa.BinOp:
		if x.Op != token.ADD {
			return []linForm{{other: true}}
		}
		var out []linForm
		for _, a := range evalLin(x.X, depth+1) {
			for _, b := range evalLin(x.Y, depth+1) {
				out = append(out, linForm{c: a.c + b.c, csfc: a.csfc + b.csfc, k: a.k + b.k, hook: a.hook + b.hook, other: a.other || b.other})
			}
		}
		return out
	case *ssa.Phi:
		var out []linForm
		for _, e := range x.Edges {
			out = append(out, evalLin(e, depth+1)...)
		}
		return out
	case *ssa.UnOp:
		if x.Op != token.MUL {
			break
		}
		switch a := x.X.(type) {
		case *ssa.Global:
			if a.Name() == "CallerSkipFrameCount" {
				return []linForm{{csfc: 1}}
			}
		case *ssa.FieldAddr:
			st := a.X.Type().Underlying().(*types.Pointer).Elem().Underlying().(*types.Struct)
			if st.Field(a.Field).Name() == "callerSkipFrameCount" {
				return []linForm{{hook: 1}}
			}
		case *ssa.IndexAddr:
			// skip[0] of the variadic parameter
			if p, ok := a.X.(*ssa.Parameter); ok && p.Name() == "skip" {
				return []linForm{{k: 1}}
			}
		}
	case *ssa.Parameter:
		if x.Name() == "skip" {
			return []linForm{{k: 1}}
		}
	}
	return []linForm{{other: true}}
}

type callEdge struct {
	to   *ssa.Function
	site ssa.CallInstruction
}

func sweepCallerFrames(p *Prog, pc *PropConfig, tags string, r *checkResult) {
	var target, hookRun *ssa.Function
	for _, fn := range p.AllFns {
		switch fn.String() {
		case "(*" + p.ModPath + ".Event).caller":
			target = fn
		case "(" + p.ModPath + ".callerHook).Run":
			hookRun = fn
		}
	}
	if target == nil || hookRun == nil {
		r.errors = append(r.errors, "callerframes: (*Event).caller or callerHook.Run not found")
		return
	}
	inScope := func(f *ssa.Function) bool {
		if f == nil || f.Pkg == nil || len(f.Blocks) == 0 {
			return false
		}
		path := f.Pkg.Pkg.Path()
		return path == p.ModPath || path == p.ModPath+"/log"
	}
	edges := map[*ssa.Function][]callEdge{}
	for _, fn := range p.AllFns {
		if !inScope(fn) {
			continue
		}
		for _, b := range fn.Blocks {
			for _, in := range b.Instrs {
				ci, ok := in.(ssa.CallInstruction)
				if !ok {
					continue
				}
				if _, isDefer := in.(*ssa.Defer); isDefer {
					continue
				}
				cc := ci.Common()
				if cc.IsInvoke() {
					if cc.Method.Name() == "Run" && strings.HasSuffix(types.TypeString(cc.Value.Type(), nil), ".Hook") {
						edges[fn] = append(edges[fn], callEdge{hookRun, ci})
					}
					continue
				}
				if f := cc.StaticCallee(); f != nil && inScope(f) {
					edges[fn] = append(edges[fn], callEdge{f, ci})
				}
			}
		}
	}
	// functions from which the target is reachable
	reach := map[*ssa.Function]bool{target: true}
	for changed := true; changed; {
		changed = false
		for f, es := range edges {
			if reach[f] {
				continue
			}
			for _, e := range es {
				if reach[e.to] {
					reach[f] = true
					changed = true
					break
				}
			}
		}
	}
	c := &Contract{Key: target.String(), Kind: "func", Pkg: p.ModPath, Mode: ModeInt, Props: []string{pc.ID}, Loops: map[int]*LoopSpec{}, Flags: map[string]string{"replay": "caller_frames"}, File: "(sweep callerframes)"}
	fv := newFuncVC(p, target, c)
	fv.Name = "zerolog.callerframes"
	fv.activeProp = pc.ID
	fv.curReach = "true"
	fv.declare("CSFC", SMath)
	fv.declare("userSkip", SMath)
	fv.declare("hookSkip", SMath)
	// CallerSkipFrameCount stays symbolic: its documented default is 2, and a user who raises it by d
	// (to step over d wrapper frames of their own) moves every site that is based on the global by d
	fv.assert("(>= CSFC 0)")
	fv.assert("(>= userSkip 0)")
	// the runtime.Caller argument inside caller(): skip + e.skipFrame
	okShape := false
	for _, b := range target.Blocks {
		for _, in := range b.Instrs {
			call, ok := in.(*ssa.Call)
			if !ok {
				continue
			}
			if f := call.Call.StaticCallee(); f != nil && f.String() == "runtime.Caller" {
				if add, ok := call.Call.Args[0].(*ssa.BinOp); ok && add.Op == token.ADD {
					_, px := add.X.(*ssa.Parameter)
					_, py := add.Y.(*ssa.Parameter)
					if px || py {
						okShape = true
					}
				}
			}
		}
	}
	if !okShape {
		fv.oblige("frames", "runtime.Caller-argument", nil, target.Pos(), "false", "(*Event).caller passes skip + e.skipFrame to runtime.Caller")
	}
	var entries []*ssa.Function
	for f := range reach {
		if f == target || !inScope(f) {
			continue
		}
		if f.Name() == "Run" {
			continue // a Hook implementation is called by zerolog, not by the user; hooks nested around callerHook are outside the statement
		}
		if token.IsExported(f.Name()) && f.Parent() == nil {
			if f.Signature.Recv() != nil {
				rn, _ := recvNamed(f)
				if !token.IsExported(rn) {
					continue
				}
			}
			entries = append(entries, f)
		}
	}
	sort.Slice(entries, func(i, j int) bool { return entries[i].String() < entries[j].String() })
	npaths := 0
	cycSeen := map[string]bool{}
	var walk func(path []*ssa.Function, sites []ssa.CallInstruction)
	walk = func(path []*ssa.Function, sites []ssa.CallInstruction) {
		cur := path[len(path)-1]
		if cur == target {
			npaths++
			fv.pathObligation(p, path, sites)
			return
		}
		if len(path) > 10 {
			return
		}
		for _, e := range edges[cur] {
			if !reach[e.to] {
				continue
			}
			cyc := false
			for _, q := range path {
				if q == e.to {
					cyc = true
				}
			}
			if cyc {
				// a call cycle among the functions between the user's statement and runtime.Caller makes
				// the number of zerolog frames depend on the input: no constant skip can be right
				key := cur.String() + " -> " + e.to.String()
				if !cycSeen[key] {
					cycSeen[key] = true
					fv.oblige("frames", "recursion "+shortFn(cur)+" -> "+shortFn(e.to), nil, e.site.Pos(), "false",
						"no function on a path from a user entry to (*Event).caller calls back into that path: "+shortFn(cur)+" calls "+shortFn(e.to)+", which is already on the stack, so the frame distance to the user's statement varies with the input")
				}
				continue
			}
			walk(append(append([]*ssa.Function{}, path...), e.to), append(append([]ssa.CallInstruction{}, sites...), e.site))
		}
	}
	for _, e := range entries {
		walk([]*ssa.Function{e}, nil)
	}
	r.notes = append(r.notes, fmt.Sprintf("callerframes sweep: %d entries, %d call paths to (*Event).caller", len(entries), npaths))
	if npaths < 8 {
		r.errors = append(r.errors, fmt.Sprintf("callerframes sweep found only %d paths (expected at least 8)", npaths))
	}
	r.fvs = append(r.fvs, fv)
}

// pathObligation: one obligation per alternative value of the skip argument.
func (fv *FuncVC) pathObligation(p *Prog, path []*ssa.Function, sites []ssa.CallInstruction) {
	nEdges := len(sites)
	last := sites[nEdges-1].Common()
	forms := evalLin(last.Args[1], 0)
	// CallerSkipFrame(c) performed in path functions before they call down the path
	var extra int64
	extraOther := false
	for i := 0; i < nEdges; i++ {
		fn := path[i]
		site := sites[i]
		for _, b := range fn.Blocks {
			for _, in := range b.Instrs {
				call, ok := in.(*ssa.Call)
				if !ok {
					continue
				}
				if f := call.Call.StaticCallee(); f != nil && f.Name() == "CallerSkipFrame" {
					sb := site.(ssa.Instruction).Block()
					if !b.Dominates(sb) {
						continue
					}
					if c, isC := call.Call.Args[1].(*ssa.Const); isC && c.Value != nil {
						extra += c.Int64()
					} else {
						extraOther = true
					}
				}
			}
		}
	}
	var names []string
	for _, f := range path {
		names = append(names, strings.TrimPrefix(strings.Replace(f.String(), p.ModPath, "zerolog", 1), ""))
	}
	desc := strings.Join(names, " -> ")
	for _, lf := range forms {
		goal := "false"
		if !lf.other && !extraOther {
			// value - user's own move == frames + 1
			value := fmt.Sprintf("(+ %d (* %d CSFC) (* %d userSkip) (* %d hookSkip) %d)", lf.c, lf.csfc, lf.k, lf.hook, extra)
			move := fmt.Sprintf("(+ (* %d userSkip) (* %d (- hookSkip 2)))", lf.k, lf.hook)
			want := fmt.Sprintf("%d", nEdges+1)
			if lf.hook == 0 {
				// based on the global setting, read when the event is emitted
				want = fmt.Sprintf("(+ %d (- CSFC 2))", nEdges+1)
			}
			goal = fmt.Sprintf("(= (- %s %s) %s)", value, move, want)
		}
		fv.oblige("frames", sanitize(desc), nil, sites[nEdges-1].Pos(), goal,
			fmt.Sprintf("path %s: runtime.Caller gets %s plus %d from CallerSkipFrame; %d zerolog frames lie between it and the user's statement", desc, lf.String(), extra, nEdges+1))
	}
}
