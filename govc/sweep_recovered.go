package main

import (
	"fmt"
	"go/token"
	"sort"
	"strings"

	"golang.org/x/tools/go/ssa"
)

func init() { sweepTable["recovered"] = sweepRecovered }

// sweepRecovered (C17): the decoder reports malformed input by panic(error),
// and that panic is turned into a result by the recover in
// Cbor2JsonManyObjects. "Decoding through ConsoleWriter/syslog/journald
// returns output and/or an error" therefore needs every way into the decoder
// from outside internal/cbor to pass through a frame that recovers.
//
// Effect "may exit by a decoder panic": a function of internal/cbor's
// decode_stream.go with an explicit panic instruction has it; a function that
// (statically) calls one that has it, has it too, unless it defers a function
// that calls recover(). Obligation, for every module function outside
// internal/cbor that has the effect: it is unexported and nothing in the
// module calls it (a dead wrapper). Exported functions and methods outside
// internal/cbor -- ConsoleWriter.Write, the syslog and journald writers -- must
// not have it.
func sweepRecovered(p *Prog, pc *PropConfig, tags string, r *checkResult) {
	s := &ownSweep{p: p, pc: pc, r: r, names: map[string]int{}, counts: map[string]*FuncReport{}, backendName: "callgraph"}
	var anchor *ssa.Function
	for _, fn := range p.AllFns {
		if fn.String() == p.ModPath+"/internal/cbor.Cbor2JsonManyObjects" {
			anchor = fn
		}
	}
	if anchor == nil {
		r.errors = append(r.errors, "recovered: internal/cbor.Cbor2JsonManyObjects not found")
		return
	}
	c := &Contract{Key: anchor.String(), Kind: "func", Pkg: p.ModPath, Mode: ModeInt, Props: []string{pc.ID}, Loops: map[int]*LoopSpec{}, Flags: map[string]string{}, File: "(sweep recovered)"}
	s.fv = newFuncVC(p, anchor, c)
	s.fv.Name = "decoder.recovered"
	s.fv.activeProp = pc.ID
	s.fv.replayTemplate = "console_torn"

	recovers := func(fn *ssa.Function) bool {
		callsRecover := func(g *ssa.Function) bool {
			for _, b := range g.Blocks {
				for _, in := range b.Instrs {
					if cl, ok := in.(ssa.CallInstruction); ok {
						if bi, ok := cl.Common().Value.(*ssa.Builtin); ok && bi.Name() == "recover" {
							return true
						}
					}
				}
			}
			return false
		}
		for _, b := range fn.Blocks {
			for _, in := range b.Instrs {
				d, ok := in.(*ssa.Defer)
				if !ok {
					continue
				}
				var g *ssa.Function
				switch v := d.Call.Value.(type) {
				case *ssa.Function:
					g = v
				case *ssa.MakeClosure:
					g, _ = v.Fn.(*ssa.Function)
				}
				if g != nil && callsRecover(g) {
					return true
				}
			}
		}
		return false
	}
	inDecoderFile := func(fn *ssa.Function) bool {
		return strings.HasSuffix(p.Fset.Position(fn.Pos()).Filename, "internal/cbor/decode_stream.go")
	}
	pkgPath := func(fn *ssa.Function) string {
		for q := fn; q != nil; q = q.Parent() {
			if q.Pkg != nil {
				return q.Pkg.Pkg.Path()
			}
		}
		return ""
	}
	var fns []*ssa.Function
	for _, fn := range p.AllFns {
		if len(fn.Blocks) > 0 && p.inModule(fn) && !strings.HasSuffix(p.Fset.Position(fn.Pos()).Filename, "_test.go") {
			fns = append(fns, fn)
		}
	}
	sort.Slice(fns, func(i, j int) bool { return fns[i].String() < fns[j].String() })
	has := map[*ssa.Function]string{} // function -> why
	callers := map[*ssa.Function][]*ssa.Function{}
	for _, fn := range fns {
		for _, b := range fn.Blocks {
			for _, in := range b.Instrs {
				if cl, ok := in.(ssa.CallInstruction); ok {
					if cal := cl.Common().StaticCallee(); cal != nil {
						callers[cal] = append(callers[cal], fn)
					}
					if mc, ok := cl.Common().Value.(*ssa.MakeClosure); ok {
						if g, ok := mc.Fn.(*ssa.Function); ok {
							callers[g] = append(callers[g], fn)
						}
					}
				}
				if _, ok := in.(*ssa.Panic); ok && inDecoderFile(fn) && !recovers(fn) {
					has[fn] = "panics on malformed input"
				}
			}
		}
	}
	nsrc := len(has)
	for changed := true; changed; {
		changed = false
		for _, fn := range fns {
			if has[fn] != "" || recovers(fn) {
				continue
			}
			for _, b := range fn.Blocks {
				for _, in := range b.Instrs {
					cl, ok := in.(ssa.CallInstruction)
					if !ok {
						continue
					}
					if _, isDefer := in.(*ssa.Defer); isDefer {
						continue
					}
					if cal := cl.Common().StaticCallee(); cal != nil && has[cal] != "" && has[fn] == "" {
						has[fn] = "calls " + shortFn(cal)
						changed = true
					}
				}
			}
		}
	}
	if nsrc == 0 || !recovers(anchor) {
		r.errors = append(r.errors, fmt.Sprintf("recovered: %d panicking decoder functions found, Cbor2JsonManyObjects recovers: %v (the sweep no longer matches the decoder's error protocol)", nsrc, recovers(anchor)))
	}
	// functions with a static path into the decoder file (the only ones the obligation is about)
	reaches := map[*ssa.Function]bool{}
	for changed := true; changed; {
		changed = false
		for _, fn := range fns {
			if reaches[fn] {
				continue
			}
			for _, b := range fn.Blocks {
				for _, in := range b.Instrs {
					if cl, ok := in.(ssa.CallInstruction); ok {
						if cal := cl.Common().StaticCallee(); cal != nil && (inDecoderFile(cal) || reaches[cal]) && !reaches[fn] {
							reaches[fn] = true
							changed = true
						}
					}
				}
			}
		}
	}
	n := 0
	var dead []string
	for _, fn := range fns {
		if pkgPath(fn) == p.ModPath+"/internal/cbor" {
			continue
		}
		exported := token.IsExported(fn.Name()) && fn.Parent() == nil
		why := has[fn]
		ok := why == "" || (!exported && len(callers[fn]) == 0)
		n++
		msg := shortFn(fn) + " cannot exit by a decoder panic (no unrecovered path into the decoder)"
		switch {
		case why != "" && ok:
			msg = shortFn(fn) + " " + why + " without recovering, but is unexported and has no caller in the module"
			dead = append(dead, shortFn(fn))
		case why != "":
			msg = shortFn(fn) + " " + why + ", which reports malformed input by panic(error), and no frame in between recovers: a torn or malformed event makes it panic instead of returning an error"
		}
		if why != "" || reaches[fn] {
			s.oblige(fn, "recovered", "decoder panic", fn.Pos(), ok, msg)
		}
	}
	r.notes = append(r.notes, fmt.Sprintf("recovered sweep [%s]: %d decoder functions panic on malformed input; %d functions outside internal/cbor examined; unexported, uncalled wrappers that would let the panic through: %s; inside internal/cbor, DecodeObjectToStr is such a function too (exported from an internal package, no non-test caller)", buildName(tags), nsrc, n, strings.Join(dead, ", ")))
	for _, fr := range s.counts {
		r.reports = append(r.reports, *fr)
	}
}
