package main

import (
	"fmt"
	"go/token"
	"strings"

	"golang.org/x/tools/go/ssa"
)

func init() { sweepTable["diodego"] = sweepDiodeGo }

// sweepDiodeGo (C11): "delivered or reported by the time Close returns" needs
// everything that delivers or reports to happen on the consumer goroutine that
// Close waits for (or on the caller's own goroutine). The only goroutines the
// diode packages and the Fatal path may start are the consumer loop (NewWriter
// -> poll) and the cancellation watcher of NewWaiter; a delivery, an alert or
// the Close of the Fatal path handed to another goroutine escapes that wait.
func sweepDiodeGo(p *Prog, pc *PropConfig, tags string, r *checkResult) {
	s := &ownSweep{p: p, pc: pc, r: r, names: map[string]int{}, counts: map[string]*FuncReport{}, backendName: "ssa-dataflow"}
	var anchor *ssa.Function
	for _, fn := range p.AllFns {
		if fn.String() == p.ModPath+"/diode.NewWriter" {
			anchor = fn
		}
	}
	if anchor == nil {
		r.errors = append(r.errors, "diodego: diode.NewWriter not found")
		return
	}
	c := &Contract{Key: anchor.String(), Kind: "func", Pkg: p.ModPath, Mode: ModeInt, Props: []string{pc.ID}, Loops: map[int]*LoopSpec{}, Flags: map[string]string{}, File: "(sweep diodego)"}
	s.fv = newFuncVC(p, anchor, c)
	s.fv.Name = "diode.goroutines"
	s.fv.activeProp = pc.ID
	s.fv.replayTemplate = "diode_poll"
	n, allowed := 0, 0
	inScope := func(fn *ssa.Function) bool {
		pk := fn.Pkg
		for q := fn; pk == nil && q != nil; q = q.Parent() {
			pk = q.Pkg
		}
		if pk == nil {
			return false
		}
		path := pk.Pkg.Path()
		if strings.HasPrefix(path, p.ModPath+"/diode") {
			return true
		}
		// the exit callback of Logger.Fatal
		return path == p.ModPath && fn.Parent() != nil && fn.Parent().Name() == "Fatal"
	}
	for _, fn := range p.AllFns {
		if len(fn.Blocks) == 0 || !p.inModule(fn) || !inScope(fn) {
			continue
		}
		for _, b := range fn.Blocks {
			for _, in := range b.Instrs {
				g, ok := in.(*ssa.Go)
				if !ok {
					continue
				}
				n++
				callee := g.Call.StaticCallee()
				name := "dynamic call"
				if callee != nil {
					name = shortFn(callee)
				}
				ok2 := false
				switch {
				case fn.String() == p.ModPath+"/diode.NewWriter" && callee != nil && callee.Name() == "poll":
					ok2 = true
				case fn.String() == p.ModPath+"/diode/internal/diodes.NewWaiter" && callee != nil && callee.Parent() == fn:
					ok2 = true
				}
				if ok2 {
					allowed++
				}
				why := fmt.Sprintf("go %s in %s is the consumer loop / the cancellation watcher", name, shortFn(fn))
				if !ok2 {
					why = fmt.Sprintf("go %s in %s: work handed to a goroutine that Close does not wait for (deliveries, alerts and the Fatal-path Close must finish before Close / os.Exit)", name, shortFn(fn))
				}
				s.oblige(fn, "goroutine", name, in.Pos(), ok2, why)
			}
		}
	}
	// Close waits for the consumer: every return of (Writer).Close is preceded, on every path, by the
	// receive from dw.done (dominance in the SSA control-flow graph), which the consumer loop closes
	// when it ends (deferred close(dw.done) in poll); and the cancellation precedes the wait.
	s2 := &ownSweep{p: p, pc: pc, r: r, names: s.names, counts: s.counts, backendName: "ssa-dataflow"}
	c2 := &Contract{Key: anchor.String(), Kind: "func", Pkg: p.ModPath, Mode: ModeInt, Props: []string{pc.ID}, Loops: map[int]*LoopSpec{}, Flags: map[string]string{}, File: "(sweep diodego)"}
	s2.fv = newFuncVC(p, anchor, c2)
	s2.fv.Name = "diode.closewaits"
	s2.fv.activeProp = pc.ID
	s2.fv.replayTemplate = "diode_close"
	for _, fn := range p.AllFns {
		switch fn.String() {
		case "(" + p.ModPath + "/diode.Writer).Close":
			var recvBlock *ssa.BasicBlock
			for _, b := range fn.Blocks {
				for _, in := range b.Instrs {
					if u, ok := in.(*ssa.UnOp); ok && u.Op == token.ARROW && strings.Contains(describeVal(u.X, map[ssa.Value]string{}, 0), ".done") {
						recvBlock = b
					}
				}
			}
			nret := 0
			for _, b := range fn.Blocks {
				for _, in := range b.Instrs {
					if _, ok := in.(*ssa.Return); ok {
						nret++
						ok2 := recvBlock != nil && (recvBlock == b || recvBlock.Dominates(b))
						why := "this return of Writer.Close comes after the receive from dw.done on every path"
						if !ok2 {
							why = "a path through Writer.Close returns without having received from dw.done: the caller (Logger.Fatal, a shutdown handler) goes on -- or exits -- while the consumer may still be draining"
						}
						s2.oblige(fn, "closewaits", "return", in.Pos(), ok2, why)
					}
				}
			}
			if nret == 0 {
				r.errors = append(r.errors, "diodego: Writer.Close has no return")
			}
		case "(" + p.ModPath + "/diode.Writer).poll":
			okDefer := false
			for _, b := range fn.Blocks {
				for _, in := range b.Instrs {
					if d, ok := in.(*ssa.Defer); ok {
						if bi, ok := d.Call.Value.(*ssa.Builtin); ok && bi.Name() == "close" && len(d.Call.Args) == 1 && strings.Contains(describeVal(d.Call.Args[0], map[ssa.Value]string{}, 0), ".done") && b == fn.Blocks[0] {
							okDefer = true
						}
					}
				}
			}
			why := "the consumer loop closes dw.done when it ends, however it ends (deferred in its entry block)"
			if !okDefer {
				why = "the consumer loop must close dw.done by a defer in its entry block: Close waits on that channel"
			}
			s2.oblige(fn, "closewaits", "close(done)", fn.Pos(), okDefer, why)
		}
	}
	if allowed < 2 {
		r.errors = append(r.errors, fmt.Sprintf("diodego: found only %d of the 2 expected go statements (consumer loop, cancellation watcher)", allowed))
	}
	r.notes = append(r.notes, fmt.Sprintf("diodego sweep: %d go statements in the diode packages and the Fatal callback", n))
	for _, fr := range s.counts {
		r.reports = append(r.reports, *fr)
	}
}
