package main

import (
	"fmt"
	"strconv"
	"go/constant"
	"go/token"
	"go/types"
	"strings"

	"golang.org/x/tools/go/ssa"
)

// Env evaluates contract expressions to SMT terms.
type Env struct {
	assuming    bool // the clause being evaluated is about to be assumed: its top-level quantifiers are kept for instantiation
	top         bool // the expression being evaluated is a top-level conjunct of the clause
	fv          *FuncVC
	names       map[string]Val
	st, old     *State
	pkgOverride string
	cur         *Clause
}

type evalError struct{ msg string }

func (fv *FuncVC) newEnv(st, old *State) *Env {
	e := &Env{fv: fv, names: map[string]Val{}, st: st, old: old}
	for k, v := range fv.params {
		e.names[k] = v
		e.names[k+"0"] = v // Gobra-style entry value; loop-carried variables may shadow the plain name
	}
	return e
}

func (e *Env) fail(f string, a ...interface{}) {
	where := ""
	if e.cur != nil {
		where = fmt.Sprintf("%s:%d: ", e.cur.File, e.cur.Line)
	}
	panic(unsupported{where + "contract expression: " + fmt.Sprintf(f, a...)})
}

func (e *Env) bindResults(c *Contract, fn *ssa.Function, res []Val) {
	e.bindResultNames(c, fn, res)
}

func (e *Env) bindResultNames(c *Contract, fn *ssa.Function, res []Val) {
	for i, r := range res {
		n := "res"
		if i > 0 {
			n = fmt.Sprintf("res%d", i)
		}
		e.names[n] = r
		if i < len(c.Results) {
			e.names[c.Results[i]] = r
		}
	}
}

func (e *Env) pkg() *types.Package {
	path := e.pkgOverride
	if path == "" {
		if e.fv.Fn.Pkg != nil {
			return e.fv.Fn.Pkg.Pkg
		}
		if p := e.fv.Fn.Parent(); p != nil && p.Pkg != nil {
			return p.Pkg.Pkg
		}
		return nil
	}
	for _, sp := range e.fv.P.SSA.AllPackages() {
		if sp.Pkg.Path() == path {
			return sp.Pkg
		}
	}
	if e.fv.Fn.Pkg != nil {
		return e.fv.Fn.Pkg.Pkg
	}
	return nil
}

func (e *Env) evalBool(x Expr, cl *Clause) string {
	e.cur = cl
	e.top = true
	t := e.eval(x)
	e.top = false
	if t.Sort.Kind != KBool {
		e.fail("%s is not boolean", exprString(x))
	}
	return t.S
}

func (e *Env) lit(v int64, s Sort) Term {
	if s.Kind == KMath || s.Kind == KRef {
		return Term{S: intLit(v, SInt, ModeInt), Sort: s}
	}
	return Term{S: intLit(v, s, e.fv.Mode), Sort: s}
}

// coerce adapts t to sort s where that is meaningful.
func (e *Env) coerce(t Term, s Sort) Term {
	if t.Untyped {
		switch s.Kind {
		case KInt, KMath, KRef:
			r := e.lit(t.Lit, s)
			if t.Lit < 0 || !bigLit(t) {
				return r
			}
			return Term{S: uintLit(uint64(t.Lit), s, e.fv.Mode), Sort: s}
		}
		e.fail("integer literal used as %s", s)
	}
	if sameSort(t.Sort, s) {
		return t
	}
	if t.Sort.Kind == KInt && s.Kind == KInt {
		if e.fv.Mode == ModeInt {
			return Term{S: t.S, Sort: s, Go: t.Go}
		}
		return e.fv.convInt(t, s)
	}
	if (t.Sort.Kind == KInt || t.Sort.Kind == KMath) && (s.Kind == KInt || s.Kind == KMath) && e.fv.Mode == ModeInt {
		return Term{S: t.S, Sort: s, Go: t.Go}
	}
	if t.Sort.Kind == KMath && s.Kind == KRef || t.Sort.Kind == KRef && s.Kind == KMath {
		return Term{S: t.S, Sort: s}
	}
	if t.Sort.Kind == KMath && s.Kind == KInt && e.fv.Mode == ModeBV {
		return Term{S: mathToBV(t.S, s), Sort: s}
	}
	e.fail("cannot use %s as %s", t.Sort, s)
	return t
}

func bigLit(t Term) bool { return false }

// unify brings two operands to a common sort.
func (e *Env) unify(a, b Term) (Term, Term) {
	switch {
	case a.Untyped && b.Untyped:
		s := SMath
		return e.coerce(a, s), e.coerce(b, s)
	case a.Untyped:
		return e.coerce(a, b.Sort), b
	case b.Untyped:
		return a, e.coerce(b, a.Sort)
	}
	if sameSort(a.Sort, b.Sort) {
		return a, b
	}
	if a.Sort.Kind == KInt && b.Sort.Kind == KInt {
		if e.fv.Mode == ModeInt {
			return a, Term{S: b.S, Sort: a.Sort}
		}
		// bv: widen to the larger
		if a.Sort.W >= b.Sort.W {
			return a, e.fv.convInt(b, a.Sort)
		}
		return e.fv.convInt(a, b.Sort), b
	}
	if e.fv.Mode == ModeInt && (a.Sort.Kind == KInt || a.Sort.Kind == KMath) && (b.Sort.Kind == KInt || b.Sort.Kind == KMath) {
		return Term{S: a.S, Sort: SMath}, Term{S: b.S, Sort: SMath}
	}
	if (a.Sort.Kind == KRef || a.Sort.Kind == KMath) && (b.Sort.Kind == KRef || b.Sort.Kind == KMath) {
		return a, Term{S: b.S, Sort: a.Sort}
	}
	if e.fv.Mode == ModeBV && a.Sort.Kind == KMath && b.Sort.Kind == KInt {
		return e.coerce(a, b.Sort), b
	}
	if e.fv.Mode == ModeBV && b.Sort.Kind == KMath && a.Sort.Kind == KInt {
		return a, e.coerce(b, a.Sort)
	}
	e.fail("operands have different sorts: %s and %s", a.Sort, b.Sort)
	return a, b
}

func (e *Env) eval(x Expr) Term {
	fv := e.fv
	wasTop := e.top
	if wasTop {
		keep := false
		switch b := x.(type) {
		case EBinary:
			keep = b.Op == "&&"
		case EQuant:
			keep = b.Forall
		case ECall:
			_, isSpec := fv.P.CS.Specs[b.Fn]
			keep = isSpec
		}
		if !keep {
			e.top = false
			defer func() { e.top = wasTop }()
		}
	}
	switch x := x.(type) {
	case EInt:
		t := Term{Untyped: true, Lit: x.V, Sort: SInt}
		if x.Big {
			// only meaningful for unsigned 64-bit operands
			t.Lit = int64(x.U)
			return Term{S: uintLit(x.U, Sort{Kind: KInt, W: 64}, fv.Mode), Sort: Sort{Kind: KInt, W: 64}}
		}
		return t
	case EBool:
		if x.V {
			return Term{S: "true", Sort: SBool}
		}
		return Term{S: "false", Sort: SBool}
	case EStr:
		return fv.strConst(x.V)
	case ENil:
		return Term{S: "nil", Sort: Sort{Kind: KTuple}} // resolved by comparison
	case EIdent:
		return e.ident(x.Name)
	case EUnary:
		t := e.eval(x.X)
		switch x.Op {
		case "!":
			return Term{S: smtNot(t.S), Sort: SBool}
		case "-":
			if t.Untyped {
				return Term{Untyped: true, Lit: -t.Lit, Sort: SInt}
			}
			if fv.Mode == ModeBV && t.Sort.Kind == KInt {
				return Term{S: app("bvneg", t.S), Sort: t.Sort}
			}
			return Term{S: app("-", t.S), Sort: t.Sort}
		case "^":
			if fv.Mode == ModeBV && t.Sort.Kind == KInt {
				return Term{S: app("bvnot", t.S), Sort: t.Sort}
			}
		}
		e.fail("unary %s unsupported here", x.Op)
	case EBinary:
		return e.binary(x)
	case EField:
		return e.field(x)
	case EIndex:
		a := e.eval(x.X)
		i := e.coerce(e.eval(x.I), SInt)
		switch a.Sort.Kind {
		case KBytes, KSlice:
			var et types.Type
			if a.Go != nil {
				switch u := a.Go.Underlying().(type) {
				case *types.Slice:
					et = u.Elem()
				}
			}
			return Term{S: fv.elemAt(a, i.S), Sort: fv.elemSort(a.Sort), Go: et}
		case KArray:
			return Term{S: app("select", a.S, i.S), Sort: *a.Sort.Elem}
		}
		e.fail("cannot index %s", a.Sort)
	case ESliceE:
		a := e.eval(x.X)
		if a.Sort.Kind != KBytes && a.Sort.Kind != KSlice {
			e.fail("cannot slice %s", a.Sort)
		}
		lo := fv.ilit(0)
		if x.Lo != nil {
			lo = e.coerce(e.eval(x.Lo), SInt).S
		}
		hi := fv.lenOf(a)
		if x.Hi != nil {
			hi = e.coerce(e.eval(x.Hi), SInt).S
		}
		dt := fv.sliceDT(a.Sort)
		r := fv.rebuildSlice(a, map[string]string{"len": fv.isub(hi, lo), "off": fv.iadd(fv.offOf(a), lo), "cap": fv.isub(fv.capOf(a), lo)}, dt)
		r.Go = a.Go
		return r
	case EQuant:
		return e.quant(x)
	case ECall:
		return e.callExpr(x)
	}
	e.fail("cannot evaluate %s", exprString(x))
	return Term{}
}

func (e *Env) quant(x EQuant) Term {
	fv := e.fv
	lo0, hi0 := e.eval(x.Lo), e.eval(x.Hi)
	if fv.Mode == ModeBV && (lo0.Sort.Kind == KMath || hi0.Sort.Kind == KMath) {
		return e.quantMath(x, lo0, hi0)
	}
	lo := e.coerce(lo0, SInt)
	hi := e.coerce(hi0, SInt)
	fv.nfresh++
	bv := fmt.Sprintf("%s_q%d", x.Var, fv.nfresh)
	saved, had := e.names[x.Var]
	e.names[x.Var] = Val{T: Term{S: bv, Sort: SInt, Go: types.Typ[types.Int]}}
	svTop := e.top
	e.top = false
	body := e.eval(x.Body)
	e.top = svTop
	if had {
		e.names[x.Var] = saved
	} else {
		delete(e.names, x.Var)
	}
	if body.Sort.Kind != KBool {
		e.fail("quantifier body is not boolean")
	}
	rng := smtAnd(fv.ile(lo.S, bv), fv.ilt(bv, hi.S))
	if x.Forall && e.assuming && e.top {
		fv.registerQuant(bv, smtImp(rng, body.S))
	}
	if x.Forall {
		if pats := selectPatterns(body.S, bv); len(pats) > 0 {
			var ps string
			for _, p := range pats {
				ps += " :pattern (" + p + ")"
			}
			return Term{S: fmt.Sprintf("(forall ((%s %s)) (! (=> %s %s)%s))", bv, idxSort(fv.Mode), rng, body.S, ps), Sort: SBool}
		}
		return Term{S: fmt.Sprintf("(forall ((%s %s)) (=> %s %s))", bv, idxSort(fv.Mode), rng, body.S), Sort: SBool}
	}
	return Term{S: fmt.Sprintf("(exists ((%s %s)) (and %s %s))", bv, idxSort(fv.Mode), rng, body.S), Sort: SBool}
}

// quantMath: a quantifier whose range is over ghost (mathematical) integers --
// call-log indices -- inside a bit-vector contract: the bound variable is an Int.
func (e *Env) quantMath(x EQuant, lo0, hi0 Term) Term {
	fv := e.fv
	lo := e.coerce(lo0, SMath)
	hi := e.coerce(hi0, SMath)
	fv.nfresh++
	bv := fmt.Sprintf("%s_q%d", x.Var, fv.nfresh)
	saved, had := e.names[x.Var]
	e.names[x.Var] = Val{T: Term{S: bv, Sort: SMath}}
	svTop := e.top
	e.top = false
	body := e.eval(x.Body)
	e.top = svTop
	if had {
		e.names[x.Var] = saved
	} else {
		delete(e.names, x.Var)
	}
	if body.Sort.Kind != KBool {
		e.fail("quantifier body is not boolean")
	}
	rng := smtAnd(app("<=", lo.S, bv), app("<", bv, hi.S))
	if x.Forall {
		if pats := selectPatterns(body.S, bv); len(pats) > 0 {
			var ps string
			for _, p := range pats {
				ps += " :pattern (" + p + ")"
			}
			return Term{S: fmt.Sprintf("(forall ((%s Int)) (! (=> %s %s)%s))", bv, rng, body.S, ps), Sort: SBool}
		}
		return Term{S: fmt.Sprintf("(forall ((%s Int)) (=> %s %s))", bv, rng, body.S), Sort: SBool}
	}
	return Term{S: fmt.Sprintf("(exists ((%s Int)) (and %s %s))", bv, rng, body.S), Sort: SBool}
}

func (e *Env) ident(name string) Term {
	fv := e.fv
	if v, ok := e.names[name]; ok {
		if v.LV != nil {
			return fv.load(e.st, v.LV)
		}
		if v.T.S == "" && len(v.Tuple) > 0 {
			e.fail("%s is a tuple", name)
		}
		return v.T
	}
	if pk := e.pkg(); pk != nil {
		if obj := pk.Scope().Lookup(name); obj != nil {
			switch o := obj.(type) {
			case *types.Const:
				return e.constTerm(o)
			case *types.Var:
				for _, sp := range fv.P.SSA.AllPackages() {
					if sp.Pkg == pk {
						if g, ok := sp.Members[name].(*ssa.Global); ok {
							t := fv.globalTerm(e.st, g)
							t.Go = o.Type()
							return t
						}
					}
				}
			}
		}
	}
	if pk := e.pkg(); pk != nil {
		for _, sp := range fv.P.SSA.AllPackages() {
			if sp.Pkg == pk {
				if g, ok := sp.Members[name].(*ssa.Global); ok {
					t := fv.globalTerm(e.st, g)
					t.Go = g.Type().(*types.Pointer).Elem()
					return t
				}
			}
		}
	}
	if name == "cov" && fv.C != nil && len(fv.C.Sites) > 0 {
		// ghost: input positions accounted for by the appends so far (site clauses)
		return fv.ghostTerm(e.st, "cov", SMath)
	}
	if v, ok := ghostConsts[name]; ok {
		return Term{S: fmt.Sprint(v), Sort: SMath}
	}
	if sf, ok := fv.P.CS.Specs[name]; ok && len(sf.Params) == 0 {
		return e.specCall(sf, nil)
	}
	// a named local that lives in a cell (captured by a closure, or its address taken): its current value
	{
		var found *ssa.Alloc
		n := 0
		for _, b := range fv.Fn.Blocks {
			for _, in := range b.Instrs {
				if a, ok := in.(*ssa.Alloc); ok && a.Comment == name {
					found = a
					n++
				}
			}
		}
		if n == 1 {
			if v, ok := fv.vals[found]; ok && v.LV != nil {
				return fv.load(e.st, v.LV)
			}
		}
	}
	e.fail("unknown identifier %q", name)
	return Term{}
}

func (e *Env) constTerm(o *types.Const) Term {
	fv := e.fv
	s := fv.sortOf(o.Type())
	switch s.Kind {
	case KInt:
		if b, ok := o.Type().Underlying().(*types.Basic); ok && b.Info()&types.IsUntyped != 0 {
			v, _ := constant.Int64Val(constant.ToInt(o.Val()))
			return Term{Untyped: true, Lit: v, Sort: SInt}
		}
		v, _ := constant.Int64Val(constant.ToInt(o.Val()))
		return Term{S: intLit(v, s, fv.Mode), Sort: s, Go: o.Type()}
	case KBool:
		if constant.BoolVal(o.Val()) {
			return Term{S: "true", Sort: SBool}
		}
		return Term{S: "false", Sort: SBool}
	case KBytes:
		return fv.strConst(constant.StringVal(o.Val()))
	}
	e.fail("constant %s of unsupported type", o.Name())
	return Term{}
}

func (e *Env) field(x EField) Term {
	fv := e.fv
	// package-qualified identifiers (pkg.Name)
	if id, ok := x.X.(EIdent); ok {
		if _, bound := e.names[id.Name]; !bound {
			if pk := e.pkg(); pk != nil {
				for _, imp := range pk.Imports() {
					if imp.Name() == id.Name {
						save := e.pkgOverride
						e.pkgOverride = imp.Path()
						defer func() { e.pkgOverride = save }()
						return e.ident(x.Name)
					}
				}
			}
		}
	}
	b := e.eval(x.X)
	switch b.Sort.Kind {
	case KRef:
		if b.Go == nil {
			e.fail("%s: pointer of unknown type", exprString(x.X))
		}
		pt, ok := b.Go.Underlying().(*types.Pointer)
		if !ok {
			e.fail("%s is not a pointer to a struct", exprString(x.X))
		}
		st, ok := pt.Elem().Underlying().(*types.Struct)
		if !ok {
			e.fail("%s does not point to a struct", exprString(x.X))
		}
		for i := 0; i < st.NumFields(); i++ {
			if st.Field(i).Name() == x.Name {
				s := fv.sortOf(st.Field(i).Type())
				h := fv.heapTerm(e.st, heapKey(pt.Elem(), x.Name), s)
				return Term{S: selStore(h.S, b.S), Sort: s, Go: st.Field(i).Type()}
			}
		}
		e.fail("no field %s in %s", x.Name, pt.Elem())
	case KStruct:
		if b.Go == nil {
			e.fail("%s: struct of unknown type", exprString(x.X))
		}
		si := fv.structInfoOf(b.Go)
		for i, f := range si.fields {
			if f.Name() == x.Name {
				return Term{S: app(fmt.Sprintf("S_%s_%s", si.sort.Name, f.Name()), b.S), Sort: si.fsorts[i], Go: f.Type()}
			}
		}
		e.fail("no field %s in %s", x.Name, b.Go)
	}
	e.fail("field access on %s", b.Sort)
	return Term{}
}

func (e *Env) binary(x EBinary) Term {
	fv := e.fv
	switch x.Op {
	case "&&", "||", "==>", "<==>":
		a, b := e.eval(x.X), e.eval(x.Y)
		if a.Sort.Kind != KBool || b.Sort.Kind != KBool {
			e.fail("%s needs boolean operands in %s", x.Op, exprString(x))
		}
		switch x.Op {
		case "&&":
			return Term{S: smtAnd(a.S, b.S), Sort: SBool}
		case "||":
			return Term{S: smtOr(a.S, b.S), Sort: SBool}
		case "==>":
			return Term{S: smtImp(a.S, b.S), Sort: SBool}
		}
		return Term{S: app("=", a.S, b.S), Sort: SBool}
	}
	// nil comparisons
	if _, isNil := x.Y.(ENil); isNil && (x.Op == "==" || x.Op == "!=") {
		a := e.eval(x.X)
		var r string
		switch a.Sort.Kind {
		case KRef:
			r = app("=", a.S, "0")
		case KIface:
			r = app("=", app("Iface_tag", a.S), "0")
		case KBytes, KSlice:
			r = app("=", fv.baseOf(a), "0")
		default:
			e.fail("cannot compare %s with nil", a.Sort)
		}
		if x.Op == "!=" {
			r = smtNot(r)
		}
		return Term{S: r, Sort: SBool}
	}
	a, b := e.eval(x.X), e.eval(x.Y)
	switch x.Op {
	case "==", "!=":
		var r string
		if a.Sort.Kind == KBytes && b.Sort.Kind == KBytes && !a.Untyped && !b.Untyped {
			r = fv.strEq(a, b)
		} else {
			a, b = e.unify(a, b)
			r = app("=", a.S, b.S)
		}
		if x.Op == "!=" {
			r = smtNot(r)
		}
		return Term{S: r, Sort: SBool}
	case "<", "<=", ">", ">=":
		a, b = e.unify(a, b)
		tok := map[string]token.Token{"<": token.LSS, "<=": token.LEQ, ">": token.GTR, ">=": token.GEQ}[x.Op]
		if a.Sort.Kind == KMath || a.Sort.Kind == KRef {
			return Term{S: app(x.Op, a.S, b.S), Sort: SBool}
		}
		if a.Sort.Kind != KInt {
			e.fail("ordering on %s", a.Sort)
		}
		return Term{S: fv.intCmp(tok, a, b), Sort: SBool}
	}
	// arithmetic
	if a.Untyped && b.Untyped {
		var v int64
		switch x.Op {
		case "+":
			v = a.Lit + b.Lit
		case "-":
			v = a.Lit - b.Lit
		case "*":
			v = a.Lit * b.Lit
		case "/":
			v = a.Lit / b.Lit
		case "%":
			v = a.Lit % b.Lit
		case "<<":
			v = a.Lit << uint(b.Lit)
		case ">>":
			v = a.Lit >> uint(b.Lit)
		case "&":
			v = a.Lit & b.Lit
		case "|":
			v = a.Lit | b.Lit
		default:
			e.fail("constant op %s", x.Op)
		}
		return Term{Untyped: true, Lit: v, Sort: SInt}
	}
	var ylit, xlit *int64
	if b.Untyped {
		l := b.Lit
		ylit = &l
	}
	if a.Untyped {
		l := a.Lit
		xlit = &l
	}
	if x.Op == "<<" || x.Op == ">>" {
		if b.Untyped {
			b = e.coerce(b, a.Sort)
		}
	} else {
		a, b = e.unify(a, b)
	}
	if a.Sort.Kind == KMath || a.Sort.Kind == KRef || (fv.Mode == ModeInt && a.Sort.Kind == KInt) {
		// mathematical arithmetic in contracts (no overflow obligations: specs are over integers)
		switch x.Op {
		case "+", "-", "*":
			return Term{S: app(x.Op, a.S, b.S), Sort: a.Sort}
		case "/":
			return Term{S: tdiv(a.S, b.S), Sort: a.Sort}
		case "%":
			return Term{S: tmod(a.S, b.S), Sort: a.Sort}
		case "<<":
			if ylit != nil {
				return Term{S: app("*", a.S, pow2(int(*ylit))), Sort: a.Sort}
			}
		case ">>":
			if ylit != nil {
				return Term{S: app("div", a.S, pow2(int(*ylit))), Sort: a.Sort}
			}
		case "&":
			if ylit != nil {
				if k, ok := isPow2Minus1(*ylit); ok {
					return Term{S: app("mod", a.S, pow2(k)), Sort: a.Sort}
				}
			}
		}
		e.fail("operator %s not available on mathematical integers in %s", x.Op, exprString(x))
	}
	if a.Sort.Kind != KInt {
		e.fail("arithmetic on %s", a.Sort)
	}
	tok := map[string]token.Token{"+": token.ADD, "-": token.SUB, "*": token.MUL, "/": token.QUO, "%": token.REM, "&": token.AND, "|": token.OR, "^": token.XOR, "<<": token.SHL, ">>": token.SHR, "&^": token.AND_NOT}[x.Op]
	// contract arithmetic in bv mode is the machine operation, without side obligations
	save := len(fv.obls)
	r := fv.intBin(tok, a, b, token.NoPos, ylit, xlit)
	fv.obls = fv.obls[:save]
	return r
}

func (e *Env) argBytes(x Expr) Term {
	t := e.eval(x)
	if t.Sort.Kind != KBytes && t.Sort.Kind != KSlice {
		e.fail("%s is not a slice or string", exprString(x))
	}
	return t
}

func (e *Env) callExpr(x ECall) Term {
	fv := e.fv
	argn := func(n int) {
		if len(x.Args) != n {
			e.fail("%s expects %d arguments", x.Fn, n)
		}
	}
	switch x.Fn {
	case "old":
		argn(1)
		sub := *e
		sub.st = e.old
		return sub.eval(x.Args[0])
	case "len":
		argn(1)
		t := e.argBytes(x.Args[0])
		return Term{S: fv.lenOf(t), Sort: SInt, Go: types.Typ[types.Int]}
	case "cap":
		argn(1)
		t := e.argBytes(x.Args[0])
		return Term{S: fv.capOf(t), Sort: SInt, Go: types.Typ[types.Int]}
	case "base":
		argn(1)
		t := e.argBytes(x.Args[0])
		return Term{S: fv.baseOf(t), Sort: SMath}
	case "fresh":
		// storage allocated during this call
		argn(1)
		t := e.eval(x.Args[0])
		oa := fv.ghostTerm(e.old, "alloc", SMath)
		switch t.Sort.Kind {
		case KBytes, KSlice:
			return Term{S: app(">", fv.baseOf(t), oa.S), Sort: SBool}
		case KRef:
			return Term{S: app(">", t.S, oa.S), Sort: SBool}
		}
		e.fail("fresh() of %s", t.Sort)
	case "allocated":
		argn(1)
		t := e.eval(x.Args[0])
		ca := fv.ghostTerm(e.st, "alloc", SMath)
		switch t.Sort.Kind {
		case KBytes, KSlice:
			return Term{S: app("<=", fv.baseOf(t), ca.S), Sort: SBool}
		case KRef:
			return Term{S: app("<=", t.S, ca.S), Sort: SBool}
		}
		e.fail("allocated() of %s", t.Sort)
	case "ite":
		argn(3)
		c := e.eval(x.Args[0])
		a, b := e.unify(e.eval(x.Args[1]), e.eval(x.Args[2]))
		return Term{S: fmt.Sprintf("(ite %s %s %s)", c.S, a.S, b.S), Sort: a.Sort, Go: a.Go}
	case "prefix":
		// prefix(a, b): b is a prefix of a
		argn(2)
		a, b := e.argBytes(x.Args[0]), e.argBytes(x.Args[1])
		if !sameSort(a.Sort, b.Sort) {
			e.fail("prefix() of different sequence sorts")
		}
		return Term{S: smtAnd(fv.ile(fv.lenOf(b), fv.lenOf(a)), fv.pfx(a, b)), Sort: SBool}
	case "contentat":
		// contentat(a, n, b): a[n : n+len(b)] == b
		argn(3)
		a, b := e.argBytes(x.Args[0]), e.argBytes(x.Args[2])
		n := e.coerce(e.eval(x.Args[1]), SInt)
		if !sameSort(a.Sort, b.Sort) {
			e.fail("contentat() of different sequence sorts")
		}
		return Term{S: fv.sfx(a, n.S, b), Sort: SBool}
	case "eqbytes":
		argn(2)
		a, b := e.argBytes(x.Args[0]), e.argBytes(x.Args[1])
		return Term{S: smtAnd(app("=", fv.lenOf(b), fv.lenOf(a)), fv.forallCopy(a, fv.ilit(0), b, fv.ilit(0), fv.lenOf(b))), Sort: SBool}
	case "same":
		// same(a,b): identical slice value (content, length, storage)
		argn(2)
		a, b := e.eval(x.Args[0]), e.eval(x.Args[1])
		return Term{S: app("=", a.S, b.S), Sort: SBool}
	case "ncalls":
		argn(1)
		key := exprString(x.Args[0])
		return fv.ghostTerm(e.st, "log."+key+".n", SMath)
	case "fabs", "fisnan", "fisinf", "flt", "fle", "feq", "f32", "f64", "fconst", "ftoi64", "itof64", "fadd", "fmul", "fsub":
		return e.floatBuiltin(x)
	case "maphas", "mapget":
		// maphas(m, k) / mapget(m, k): presence and value of key k in map m as the code reads them in this state
		argn(2)
		m, k := e.eval(x.Args[0]), e.eval(x.Args[1])
		var vs Sort
		if m.Go != nil {
			if mt, ok := m.Go.Underlying().(*types.Map); ok {
				vs = fv.sortOf(mt.Elem())
			}
		}
		g, h, fine := fv.mapFuncsIn(e.st, m, k, vs)
		if !fine {
			e.fail("%s: not a map with integer or boolean values", x.Fn)
		}
		if x.Fn == "maphas" {
			return Term{S: h, Sort: SBool}
		}
		return Term{S: g, Sort: vs}
	case "strlt":
		// strlt(a, b): the code's a < b on strings (uninterpreted order)
		argn(2)
		a, b := e.eval(x.Args[0]), e.eval(x.Args[1])
		fv.declareFun("strlt", []string{"Bytes", "Bytes"}, "Bool")
		return Term{S: app("strlt", a.S, b.S), Sort: SBool}
	case "callseq":
		// callseq(K, i): position of the i-th logged call of K in the global order of logged calls
		argn(2)
		key := exprString(x.Args[0])
		i := e.coerce(e.eval(x.Args[1]), SMath)
		h := fv.heapTerm(e.st, "log."+key+".s", SMath)
		return Term{S: app("select", h.S, i.S), Sort: SMath}
	case "callarg", "callres":
		argn(3)
		key := exprString(x.Args[0])
		i := e.coerce(e.eval(x.Args[1]), SMath)
		jl, ok := x.Args[2].(EInt)
		if !ok {
			e.fail("%s: argument index must be a literal", x.Fn)
		}
		kind := "a"
		if x.Fn == "callres" {
			kind = "r"
		}
		gt := fv.logSigType(key, kind, int(jl.V), e)
		s := fv.sortOf(gt)
		h := fv.heapTerm(e.st, fmt.Sprintf("log.%s.%s%d", key, kind, jl.V), s)
		return Term{S: app("select", h.S, i.S), Sort: s, Go: gt}
	case "typeis":
		argn(2)
		t := e.eval(x.Args[0])
		if t.Sort.Kind != KIface {
			e.fail("typeis on %s", t.Sort)
		}
		ts, ok := x.Args[1].(EStr)
		if !ok {
			e.fail("typeis: second argument must be a string naming the type")
		}
		gt := e.lookupType(ts.V)
		return Term{S: app("=", app("Iface_tag", t.S), fmt.Sprint(fv.tagOf(gt))), Sort: SBool}
	case "off":
		// off(b): position of b[0] in its backing array
		argn(1)
		t := e.argBytes(x.Args[0])
		return Term{S: fv.offOf(t), Sort: SInt}
	case "samearray":
		// samearray(a, b): a and b are windows of the same backing array with the same content
		argn(2)
		a, b := e.argBytes(x.Args[0]), e.argBytes(x.Args[1])
		return Term{S: smtAnd(app("=", fv.baseOf(a), fv.baseOf(b)), app("=", fv.arrOf(a), fv.arrOf(b))), Sort: SBool}
	case "arrat":
		// arrat(b, j): the byte at absolute position j of b's backing array
		argn(2)
		t := e.argBytes(x.Args[0])
		j := e.coerce(e.eval(x.Args[1]), SInt)
		return Term{S: app("select", fv.arrOf(t), j.S), Sort: fv.elemSort(t.Sort)}
	case "content":
		// content(b): ghost content of a *bytes.Buffer
		argn(1)
		t := e.eval(x.Args[0])
		if t.Sort.Kind != KRef {
			e.fail("content() of %s", t.Sort)
		}
		fv.ensureSort(SBytes)
		h := fv.heapTerm(e.st, "ghost.content", SBytes)
		ct := Term{S: selStore(h.S, t.S), Sort: SBytes}
		if k := "wf:" + ct.S + fv.blockKey(); !fv.declared[k] {
			fv.declared[k] = true
			fv.assert(fv.wf(ct, nil)) // a buffer's content is a well-formed sequence
		}
		return ct
	case "poolowned":
		// poolowned(b): the storage of b belongs to a sync.Pool declared with //@ pool
		argn(1)
		t := e.argBytes(x.Args[0])
		return Term{S: app("poolowned", fv.baseOf(t)), Sort: SBool}
	case "cast":
		// cast(p, "*T"): the same pointer viewed as *T (unsafe.Pointer conversions keep the identity)
		argn(2)
		t := e.eval(x.Args[0])
		ts, ok := x.Args[1].(EStr)
		if !ok || t.Sort.Kind != KRef {
			e.fail("cast(pointer, \"*T\")")
		}
		t.Go = e.lookupType(ts.V)
		return t
	case "implements":
		// implements(x, "pkg.Iface"): the dynamic type of interface value x implements Iface
		argn(2)
		t := e.eval(x.Args[0])
		ts, ok := x.Args[1].(EStr)
		if !ok || t.Sort.Kind != KIface {
			e.fail("implements(iface, \"T\")")
		}
		gt := e.lookupType(ts.V)
		name := "impl_" + sanitize(types.TypeString(gt, func(p *types.Package) string { return p.Name() }))
		fv.declareFun(name, []string{"Int"}, "Bool")
		fv.implAsserted(gt, name)
		return Term{S: smtAnd(smtNot(app("=", app("Iface_tag", t.S), "0")), app(name, app("Iface_tag", t.S))), Sort: SBool}
	case "dyn":
		// dyn(x, "T"): the dynamic value of interface x as T
		argn(2)
		t := e.eval(x.Args[0])
		ts, ok := x.Args[1].(EStr)
		if !ok || t.Sort.Kind != KIface {
			e.fail("dyn(iface, \"T\")")
		}
		gt := e.lookupType(ts.V)
		if pointerShaped(gt) {
			return Term{S: app("Iface_ref", t.S), Sort: fv.sortOf(gt), Go: gt}
		}
		_, u := fv.boxFuncs(gt)
		return Term{S: app(u, app("Iface_ref", t.S)), Sort: fv.sortOf(gt), Go: gt}
	case "held":
		argn(1)
		f, ok := x.Args[0].(EField)
		if !ok {
			e.fail("held(x.mu)")
		}
		b := e.eval(f.X)
		if b.Sort.Kind != KRef || b.Go == nil {
			e.fail("held(): %s is not a pointer to a struct", exprString(f.X))
		}
		pt := b.Go.Underlying().(*types.Pointer)
		h := fv.heapTerm(e.st, "held."+heapKey(pt.Elem(), f.Name), SBool)
		return Term{S: app("select", h.S, b.S), Sort: SBool}
	case "deref":
		// deref(p): the scalar a pointer points to
		argn(1)
		t := e.eval(x.Args[0])
		if t.Sort.Kind != KRef || t.Go == nil {
			e.fail("deref of %s", t.Sort)
		}
		lv := fv.derefLV(Val{T: t}, t.Go)
		r := fv.load(e.st, lv)
		r.Go = t.Go.Underlying().(*types.Pointer).Elem()
		return r
	case "mode":
		argn(1)
		t := e.argBytes(x.Args[0])
		return Term{S: app("Bytes_g1", t.S), Sort: SMath}
	case "stk":
		argn(1)
		t := e.argBytes(x.Args[0])
		return Term{S: app("Bytes_g2", t.S), Sort: SMath}
	case "lex":
		argn(1)
		t := e.argBytes(x.Args[0])
		return Term{S: app("Bytes_g3", t.S), Sort: SMath}
	case "aftervalue":
		argn(1)
		t := e.coerce(e.eval(x.Args[0]), SMath)
		if fv.cborBuild() {
			return Term{S: fv.cborAfterValue(t.S), Sort: SMath}
		}
		return Term{S: app("aftervalue", t.S), Sort: SMath}
	case "valuepos":
		argn(1)
		t := e.coerce(e.eval(x.Args[0]), SMath)
		if fv.cborBuild() {
			return Term{S: smtNot(app("=", fv.cborAfterValue(t.S), "0")), Sort: SBool}
		}
		return Term{S: app("valuepos", t.S), Sort: SBool}
	case "closemode":
		argn(1)
		t := e.coerce(e.eval(x.Args[0]), SMath)
		return Term{S: app("closemode", t.S), Sort: SMath}
	case "popstk":
		argn(1)
		t := e.coerce(e.eval(x.Args[0]), SMath)
		return Term{S: fmt.Sprintf("(div %s 4)", t.S), Sort: SMath}
	case "openstr", "afterstr":
		argn(1)
		t := e.coerce(e.eval(x.Args[0]), SMath)
		return Term{S: app(x.Fn, t.S), Sort: SMath}
	case "pushstk":
		// pushstk(m, s): the stack after opening a container in mode m
		argn(2)
		m := e.coerce(e.eval(x.Args[0]), SMath)
		st := e.coerce(e.eval(x.Args[1]), SMath)
		return Term{S: app("pushstk", m.S, st.S), Sort: SMath}
	case "plainbyte":
		argn(1)
		t := e.coerce(e.eval(x.Args[0]), SByte)
		return Term{S: app("plainbyte", t.S), Sort: SBool}
	case "cleanrun", "validrune":
		argn(3)
		t := e.argBytes(x.Args[0])
		a := e.coerce(e.eval(x.Args[1]), SInt)
		b := e.coerce(e.eval(x.Args[2]), SInt)
		if x.Fn == "validrune" {
			return Term{S: app("validrune", fv.arrOf(t), fv.iadd(fv.offOf(t), a.S), b.S), Sort: SBool}
		}
		return Term{S: app("cleanrun", fv.arrOf(t), fv.iadd(fv.offOf(t), a.S), fv.iadd(fv.offOf(t), b.S)), Sort: SBool}
	case "int", "int8", "int16", "int32", "int64", "uint", "uint8", "uint16", "uint32", "uint64", "byte":
		argn(1)
		t := e.eval(x.Args[0])
		var to Sort
		switch x.Fn {
		case "int", "int64":
			to = SInt
		case "int8":
			to = Sort{Kind: KInt, W: 8, Signed: true}
		case "int16":
			to = Sort{Kind: KInt, W: 16, Signed: true}
		case "int32":
			to = Sort{Kind: KInt, W: 32, Signed: true}
		case "uint", "uint64":
			to = Sort{Kind: KInt, W: 64}
		case "uint8", "byte":
			to = SByte
		case "uint16":
			to = Sort{Kind: KInt, W: 16}
		case "uint32":
			to = Sort{Kind: KInt, W: 32}
		}
		if t.Untyped {
			return e.coerce(t, to)
		}
		if t.Sort.Kind == KMath && fv.Mode == ModeInt {
			return Term{S: t.S, Sort: to}
		}
		return fv.convInt(t, to)
	case "math":
		// math(x): the mathematical value of a machine integer (int mode only)
		argn(1)
		t := e.eval(x.Args[0])
		if fv.Mode == ModeInt || t.Untyped {
			return e.coerce(t, SMath)
		}
		if t.Sort.Kind == KInt {
			if t.Sort.Signed {
				e.fail("math() of a signed bit-vector")
			}
			return Term{S: app("bv2nat", t.S), Sort: SMath}
		}
		e.fail("math() of %s", t.Sort)
	}
	if sf, ok := fv.P.CS.Specs[x.Fn]; ok {
		var args []Term
		for _, a := range x.Args {
			args = append(args, e.eval(a))
		}
		return e.specCall(sf, args)
	}
	if t, ok := e.ghostBuiltin(x); ok {
		return t
	}
	e.fail("unknown function %s", x.Fn)
	return Term{}
}

func (e *Env) specSort(name string) Sort {
	switch name {
	case "int":
		return SInt
	case "bool":
		return SBool
	case "bytes", "string":
		return SBytes
	case "byte", "uint8":
		return SByte
	case "int8":
		return Sort{Kind: KInt, W: 8, Signed: true}
	case "int32":
		return Sort{Kind: KInt, W: 32, Signed: true}
	case "int64":
		return SInt
	case "uint32":
		return Sort{Kind: KInt, W: 32}
	case "uint64", "uint":
		return Sort{Kind: KInt, W: 64}
	case "math":
		return SMath
	case "ref":
		return SRef
	case "iface":
		return SIface
	case "float64":
		return Sort{Kind: KFloat, W: 64}
	case "float32":
		return Sort{Kind: KFloat, W: 32}
	}
	if strings.HasPrefix(name, "opaque:") {
		return Sort{Kind: KOpaque, Name: name[7:]}
	}
	e.fail("unknown sort %q in spec function", name)
	return Sort{}
}

func (e *Env) specCall(sf *SpecFunc, args []Term) Term {
	fv := e.fv
	if len(args) != len(sf.Params) {
		e.fail("spec %s expects %d arguments", sf.Name, len(sf.Params))
	}
	rs := e.specSort(sf.RetSort)
	fv.ensureSort(rs)
	var as, ss []string
	var cargs []Term
	for i, a := range args {
		ps := e.specSort(sf.PSorts[i])
		fv.ensureSort(ps)
		a = e.coerce(a, ps)
		cargs = append(cargs, a)
		as = append(as, a.S)
		ss = append(ss, ps.smt(fv.Mode))
	}
	if sf.Def != nil {
		// inline the definition
		sub := &Env{fv: fv, names: map[string]Val{}, st: e.st, old: e.old, pkgOverride: e.pkgOverride, cur: e.cur, assuming: e.assuming, top: e.top}
		for i, p := range sf.Params {
			sub.names[p] = Val{T: cargs[i]}
		}
		r := sub.eval(sf.Def)
		return e.coerce(r, rs)
	}
	name := "spec_" + sf.Name
	fv.declareFun(name, ss, rs.smt(fv.Mode))
	t := Term{S: app(name, as...), Sort: rs}
	if rs.Kind == KInt && fv.Mode == ModeInt {
		fv.assert(rangeAssume(t.S, rs))
	}
	return t
}

func (e *Env) lookupType(name string) types.Type {
	ptr := strings.HasPrefix(name, "*")
	name = strings.TrimPrefix(name, "*")
	if name == "[]byte" {
		var t types.Type = types.NewSlice(types.Typ[types.Byte])
		if ptr {
			t = types.NewPointer(t)
		}
		return t
	}
	pk := e.pkg()
	var obj types.Object
	if i := strings.LastIndex(name, "."); i >= 0 {
		pn, tn := name[:i], name[i+1:]
		for _, sp := range e.fv.P.SSA.AllPackages() {
			if sp.Pkg.Name() == pn || sp.Pkg.Path() == pn {
				if o := sp.Pkg.Scope().Lookup(tn); o != nil {
					obj = o
					break
				}
			}
		}
	} else if pk != nil {
		obj = pk.Scope().Lookup(name)
		if obj == nil {
			obj = types.Universe.Lookup(name)
		}
	}
	tn, ok := obj.(*types.TypeName)
	if !ok {
		e.fail("unknown type %q", name)
	}
	var t types.Type = tn.Type()
	if ptr {
		t = types.NewPointer(t)
	}
	return t
}

// logSigType finds the type of argument/result j of the logged callee key.
func (fv *FuncVC) logSigType(key, kind string, j int, e *Env) types.Type {
	if ts, ok := fv.P.TrackedSigs[key]; ok {
		if kind == "r" {
			if j >= ts.sig.Results().Len() {
				e.fail("%s has %d results", key, ts.sig.Results().Len())
			}
			return ts.sig.Results().At(j).Type()
		}
		if j >= len(ts.argTypes) {
			e.fail("%s has %d arguments (receiver included)", key, len(ts.argTypes))
		}
		return ts.argTypes[j]
	}
	sig, recv := fv.lookupSig(key, e)
	if sig == nil {
		e.fail("cannot resolve the signature of tracked callee %s", key)
	}
	if kind == "r" {
		if j >= sig.Results().Len() {
			e.fail("%s has %d results", key, sig.Results().Len())
		}
		return sig.Results().At(j).Type()
	}
	if recv != nil {
		if j == 0 {
			return recv
		}
		j--
	}
	if j >= sig.Params().Len() {
		e.fail("%s has %d parameters", key, sig.Params().Len())
	}
	return sig.Params().At(j).Type()
}

func (fv *FuncVC) lookupSig(key string, e *Env) (*types.Signature, types.Type) {
	pk := e.pkg()
	parts := strings.Split(key, ".")
	lookupIn := func(p *types.Package, tn, mn string) (*types.Signature, types.Type) {
		o := p.Scope().Lookup(tn)
		if o == nil {
			return nil, nil
		}
		if mn == "" {
			switch o := o.(type) {
			case *types.Var:
				if s, ok := o.Type().Underlying().(*types.Signature); ok {
					return s, nil
				}
			case *types.Func:
				return o.Type().(*types.Signature), nil
			}
			return nil, nil
		}
		t := o.Type()
		ms := types.NewMethodSet(t)
		for i := 0; i < ms.Len(); i++ {
			if ms.At(i).Obj().Name() == mn {
				return ms.At(i).Type().(*types.Signature), t
			}
		}
		ms = types.NewMethodSet(types.NewPointer(t))
		for i := 0; i < ms.Len(); i++ {
			if ms.At(i).Obj().Name() == mn {
				return ms.At(i).Type().(*types.Signature), types.NewPointer(t)
			}
		}
		return nil, nil
	}
	switch len(parts) {
	case 1:
		if pk != nil {
			return lookupIn(pk, parts[0], "")
		}
	case 2:
		if pk != nil {
			if s, r := lookupIn(pk, parts[0], parts[1]); s != nil {
				return s, r
			}
			for _, imp := range pk.Imports() {
				if imp.Name() == parts[0] {
					return lookupIn(imp, parts[1], "")
				}
			}
		}
	case 3:
		for _, sp := range fv.P.SSA.AllPackages() {
			if sp.Pkg.Name() == parts[0] {
				if s, r := lookupIn(sp.Pkg, parts[1], parts[2]); s != nil {
					return s, r
				}
			}
		}
	}
	return nil, nil
}

// mathToBV turns a mathematical-integer term built from literals and ite
// (the shape spec functions produce) into a bit-vector term; anything else
// goes through int2bv.
func mathToBV(t string, s Sort) string {
	t = strings.TrimSpace(t)
	if n, err := strconv.ParseInt(t, 10, 64); err == nil {
		return intLit(n, s, ModeBV)
	}
	if strings.HasPrefix(t, "(- ") && strings.HasSuffix(t, ")") {
		if n, err := strconv.ParseInt(strings.TrimSpace(t[3:len(t)-1]), 10, 64); err == nil {
			return intLit(-n, s, ModeBV)
		}
	}
	if strings.HasPrefix(t, "(ite ") {
		parts := splitSexpr(t[5 : len(t)-1])
		if len(parts) == 3 {
			return "(ite " + parts[0] + " " + mathToBV(parts[1], s) + " " + mathToBV(parts[2], s) + ")"
		}
	}
	return fmt.Sprintf("((_ int2bv %d) %s)", s.W, t)
}

func splitSexpr(body string) []string {
	var out []string
	depth, start := 0, 0
	for i := 0; i < len(body); i++ {
		switch body[i] {
		case '(':
			depth++
		case ')':
			depth--
		case ' ':
			if depth == 0 {
				if p := strings.TrimSpace(body[start:i]); p != "" {
					out = append(out, p)
				}
				start = i + 1
			}
		}
	}
	if p := strings.TrimSpace(body[start:]); p != "" {
		out = append(out, p)
	}
	return out
}

// selectPatterns: the innermost (select ...) subterms of body that mention
// the bound variable; each is offered to the solver as an alternative trigger.
func selectPatterns(body, bv string) []string {
	var out []string
	seen := map[string]bool{}
	for i := 0; i+8 < len(body); i++ {
		if !strings.HasPrefix(body[i:], "(select ") {
			continue
		}
		depth := 0
		j := i
		for ; j < len(body); j++ {
			if body[j] == '(' {
				depth++
			} else if body[j] == ')' {
				depth--
				if depth == 0 {
					break
				}
			}
		}
		t := body[i : j+1]
		if !containsToken(t, bv) || strings.Contains(t[1:], "(select ") && containsToken(innerSelects(t), bv) {
			continue
		}
		if strings.Contains(t, "(forall ") || strings.Contains(t, "(ite ") || strings.Contains(t, "(let ") {
			continue
		}
		if strings.Contains(t, "(* ") || strings.Contains(t, "(div ") || strings.Contains(t, "(mod ") {
			return nil // non-linear index: leave the quantifier to model-based instantiation
		}
		if !seen[t] && len(out) < 4 {
			seen[t] = true
			out = append(out, t)
		}
	}
	return out
}

func innerSelects(t string) string {
	// text of nested select terms inside t (excluding t itself)
	var sb strings.Builder
	for i := 1; i+8 < len(t); i++ {
		if strings.HasPrefix(t[i:], "(select ") {
			depth := 0
			for j := i; j < len(t); j++ {
				if t[j] == '(' {
					depth++
				} else if t[j] == ')' {
					depth--
					if depth == 0 {
						sb.WriteString(t[i : j+1])
						sb.WriteByte(' ')
						break
					}
				}
			}
		}
	}
	return sb.String()
}

func containsToken(s, tok string) bool {
	for i := 0; i+len(tok) <= len(s); i++ {
		if s[i:i+len(tok)] == tok {
			before := i == 0 || strings.ContainsRune("( )", rune(s[i-1]))
			after := i+len(tok) == len(s) || strings.ContainsRune("( )", rune(s[i+len(tok)]))
			if before && after {
				return true
			}
		}
	}
	return false
}

// ---------------------------------------------------------------------------
// Generator-applied instantiation of assumed quantified facts. An assumed
// top-level `forall k in a..b: body` is remembered together with the arrays
// its body indexes; whenever the code reads an element of one of those arrays
// at index i, the instance body[k := i] (under the same path condition as the
// assumption) is asserted. Solvers still get the quantified fact itself; the
// instance makes the common "element taken from a slice the contract talks
// about" step independent of trigger matching modulo arithmetic.
type quantInst struct {
	bv    string
	tmpl  string
	guard string
	arrs  []string
	done  map[string]bool
}

func (fv *FuncVC) registerQuant(bv, tmpl string) {
	q := &quantInst{bv: bv, tmpl: tmpl, guard: fv.curReach, done: map[string]bool{}}
	for _, p := range selectPatterns(tmpl, bv) {
		// (select ARR IDX): ARR is the first argument
		parts := splitTop(p[len("(select ") : len(p)-1])
		if len(parts) == 2 {
			q.arrs = append(q.arrs, parts[0])
		}
	}
	if len(q.arrs) > 0 {
		fv.quants = append(fv.quants, q)
	}
}

// instantiateAt: the code reads arr[off+i].
func (fv *FuncVC) instantiateAt(arr string, i string) {
	for _, q := range fv.quants {
		hit := false
		for _, a := range q.arrs {
			if a == arr {
				hit = true
			}
		}
		if !hit || q.done[i] {
			continue
		}
		q.done[i] = true
		fv.assert(smtImp(q.guard, replaceToken(q.tmpl, q.bv, i)))
	}
}

func replaceToken(s, tok, by string) string {
	var sb strings.Builder
	for i := 0; i < len(s); {
		if strings.HasPrefix(s[i:], tok) {
			before := i == 0 || strings.ContainsRune("( )", rune(s[i-1]))
			after := i+len(tok) == len(s) || strings.ContainsRune("( )", rune(s[i+len(tok)]))
			if before && after {
				sb.WriteString(by)
				i += len(tok)
				continue
			}
		}
		sb.WriteByte(s[i])
		i++
	}
	return sb.String()
}


// floatBuiltin: floating-point vocabulary of the contract language. In a
// function with `flag fp` the operations are SMT FloatingPoint operations; in
// any other function they are uninterpreted symbols (same name, same
// arguments, hence congruent).
//   fabs(x) fisnan(x) fisinf(x, sign) flt(a,b) fle(a,b) feq(a,b) f32(x) f64(x) fconst("1e-6", 64)
//   ftoi64(x) itof64(n) fadd(a,b) fmul(a,b)
func (e *Env) floatBuiltin(x ECall) Term {
	fv := e.fv
	arg := func(i int) Term {
		t := e.eval(x.Args[i])
		if t.Sort.Kind != KFloat {
			e.fail("%s: argument %d is %s, not a float", x.Fn, i+1, t.Sort)
		}
		fv.ensureSort(t.Sort)
		return t
	}
	un := func(name string, t Term, ret Sort, body string) Term {
		fn := fmt.Sprintf("%s%d", name, t.Sort.W)
		fv.ensureSort(ret)
		if fv.fp {
			fv.fpDefine(fn, []string{t.Sort.smt(fv.Mode)}, ret.smt(fv.Mode), body)
		} else {
			fv.declareFun(fn, []string{t.Sort.smt(fv.Mode)}, ret.smt(fv.Mode))
		}
		return Term{S: app(fn, t.S), Sort: ret}
	}
	switch x.Fn {
	case "fabs":
		t := arg(0)
		r := un("fabs", t, t.Sort, "(fp.abs x0)")
		r.Go = t.Go
		return r
	case "fisnan":
		return un("fisnan", arg(0), SBool, "(fp.isNaN x0)")
	case "fisinf":
		t := arg(0)
		sgn := e.coerce(e.eval(x.Args[1]), SInt)
		zero := fv.ilit(0)
		fn := fmt.Sprintf("fisinf%d", t.Sort.W)
		is := idxSort(fv.Mode)
		if fv.fp {
			// math.IsInf(f, sign): sign > 0 -> +Inf, sign < 0 -> -Inf, sign == 0 -> either
			gt, lt := fv.ilt(zero, "x1"), fv.ilt("x1", zero)
			fv.fpDefine(fn, []string{t.Sort.smt(fv.Mode), is}, "Bool", fmt.Sprintf("(and (fp.isInfinite x0) (ite %s (fp.isPositive x0) (ite %s (fp.isNegative x0) true)))", gt, lt))
		} else {
			fv.declareFun(fn, []string{t.Sort.smt(fv.Mode), is}, "Bool")
		}
		return Term{S: app(fn, t.S, sgn.S), Sort: SBool}
	case "flt", "fle", "feq":
		a, b := arg(0), arg(1)
		if a.Sort.W != b.Sort.W {
			e.fail("%s: operands of different width", x.Fn)
		}
		fn := fmt.Sprintf("%s%d", x.Fn, a.Sort.W)
		ss := []string{a.Sort.smt(fv.Mode), a.Sort.smt(fv.Mode)}
		if fv.fp {
			fv.fpDefine(fn, ss, "Bool", map[string]string{"feq": "(fp.eq x0 x1)", "flt": "(fp.lt x0 x1)", "fle": "(fp.leq x0 x1)"}[x.Fn])
		} else {
			fv.declareFun(fn, ss, "Bool")
		}
		return Term{S: app(fn, a.S, b.S), Sort: SBool}
	case "itof64":
		// the conversion float64(n) of the code for an integer n
		return fv.floatOp("fconv", types.Typ[types.Float64], e.coerce(e.eval(x.Args[0]), SInt))
	case "fadd", "fmul", "fsub":
		a, b := arg(0), arg(1)
		if a.Sort.W != b.Sort.W {
			e.fail("%s: operands of different width", x.Fn)
		}
		gt := types.Type(types.Typ[types.Float64])
		if a.Sort.W == 32 {
			gt = types.Typ[types.Float32]
		}
		return fv.floatOp(x.Fn, gt, a, b)
	case "ftoi64":
		// the conversion int64(x) of the code (truncation toward zero; uninterpreted outside `flag fp`)
		return fv.floatOp("fconv", types.Typ[types.Int64], arg(0))
	case "f32", "f64":
		t := arg(0)
		w := 32
		gt := types.Type(types.Typ[types.Float32])
		if x.Fn == "f64" {
			w, gt = 64, types.Typ[types.Float64]
		}
		if t.Sort.W == w {
			return t
		}
		return fv.floatOp("fconv", gt, t)
	case "fconst":
		lit, ok := x.Args[0].(EStr)
		wl, ok2 := x.Args[1].(EInt)
		if !ok || !ok2 || (wl.V != 32 && wl.V != 64) {
			e.fail("fconst(\"<decimal>\", 32|64)")
		}
		gt := types.Type(types.Typ[types.Float64])
		if wl.V == 32 {
			gt = types.Typ[types.Float32]
		}
		s := fv.sortOf(gt)
		v := constant.MakeFromLiteral(lit.V, token.FLOAT, 0)
		if v.Kind() == constant.Unknown {
			e.fail("fconst: bad literal %q", lit.V)
		}
		// named by value, like the constants of the code, so that equal constants are one symbol
		f, _ := constant.Float64Val(v)
		if wl.V == 32 {
			f32, _ := constant.Float32Val(v)
			f = float64(f32)
		}
		name := "fconst_" + sanitize(strings.NewReplacer("+", "p", "-", "m", ".", "d").Replace(fmt.Sprintf("%d_%g", wl.V, f)))
		if fv.fp {
			fv.ensureSort(s)
			fv.fpDefine(name, nil, s.smt(fv.Mode), fpLiteral(v, int(wl.V)))
		} else {
			fv.declare(name, s)
		}
		return Term{S: name, Sort: s, Go: gt}
	}
	e.fail("unknown float builtin %s", x.Fn)
	return Term{}
}
