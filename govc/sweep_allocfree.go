package main

import (
	"bytes"
	"fmt"
	"go/token"
	"go/types"
	"os"
	"os/exec"
	"path/filepath"
	"regexp"
	"sort"
	"strconv"
	"strings"

	"golang.org/x/tools/go/ssa"
)

func init() { sweepTable["allocfree"] = sweepAllocFree }

// sweepAllocFree (C07): the effect contract `allocates nothing`.
//
// The entry set, the dynamic calls the property itself excludes, the library
// functions trusted to have the effect and the scoped exemptions are `effect
// allocfree ...` lines of the contract files. From the entries the sweep walks
// the static call graph inside the module; every function it reaches carries
// the effect and owes, per instruction:
//
//	site      every SSA instruction that can allocate (Alloc, MakeSlice, MakeMap,
//	          MakeChan, MakeClosure, MakeInterface, Go, Defer in a loop) does not
//	          reach the heap. Decided by the Go compiler's own escape analysis
//	          (`go build -gcflags=-m` on the working tree): discharged iff the
//	          compiler reports no `escapes to heap` / `moved to heap` on that line
//	          inside that function; a report inside the function that belongs to
//	          no such instruction (implicit conversions carry no position) fails
//	          an obligation of its own.
//	conv      string<->[]byte conversions and string concatenation allocate once
//	          the result exceeds the 32-byte stack buffer whatever the escape
//	          analysis says: never allowed.
//	call      every static callee is in the module (then it is walked and owes
//	          the same) or in the trusted table; every dynamic call is one of the
//	          listed exclusions.
//	append    allocation-free iff it fits the capacity; the property scopes
//	          itself to chains that fit the pooled buffer, so appends to a slice
//	          derived from Event.buf / Array.buf / an encoder's dst parameter are
//	          inside the assumption and appends to any other slice are not; the
//	          dst argument of an encoder-shaped callee must be such a slice.
//	disabled  in every exported *Event method the path taken by a nil receiver
//	          has no allocating instruction and no call outside the trusted table.
//
// Release of pooled objects (the pool must not run dry) is the contract part of
// C07: ncalls(putEvent)/ncalls(putArray) postconditions, discharged by SMT.
type heapDiag struct {
	file      string
	line, col int
	msg       string
	used      bool
}

var reDiag = regexp.MustCompile(`^(\S+\.go):(\d+):(\d+): (.*)$`)

func compilerHeapDiags(root, modPath, tags string) ([]*heapDiag, string, error) {
	tags = strings.TrimPrefix(strings.TrimPrefix(tags, "verif"), ",")
	args := []string{"build", "-gcflags=" + modPath + "/...=-m"}
	if tags != "" {
		args = append(args, "-tags="+tags)
	}
	args = append(args, "./...")
	cmd := exec.Command("go", args...)
	cmd.Dir = root
	cmd.Env = append(os.Environ(), "GOFLAGS=-mod=mod", "GOPROXY=off", "GOSUMDB=off", "GOTOOLCHAIN=local")
	var out bytes.Buffer
	cmd.Stdout = &out
	cmd.Stderr = &out
	err := cmd.Run()
	if err != nil {
		return nil, "", fmt.Errorf("go %s: %v\n%s", strings.Join(args, " "), err, tailOf(out.String(), 2000))
	}
	var ds []*heapDiag
	n := 0
	for _, ln := range strings.Split(out.String(), "\n") {
		m := reDiag.FindStringSubmatch(ln)
		if m == nil {
			continue
		}
		n++
		msg := m[4]
		if !strings.Contains(msg, "escapes to heap") && !strings.HasPrefix(msg, "moved to heap") {
			continue
		}
		if strings.HasSuffix(msg, ":") { // -m=2 style explanation headers
			msg = strings.TrimSuffix(msg, ":")
		}
		file := m[1]
		if !filepath.IsAbs(file) {
			file = filepath.Join(root, file)
		}
		l, _ := strconv.Atoi(m[2])
		c, _ := strconv.Atoi(m[3])
		dup := false
		for _, d := range ds {
			if d.file == file && d.line == l && d.col == c && d.msg == msg {
				dup = true
			}
		}
		if !dup {
			ds = append(ds, &heapDiag{file: file, line: l, col: c, msg: msg})
		}
	}
	if n == 0 {
		return nil, "", fmt.Errorf("go %s printed no escape-analysis diagnostics at all", strings.Join(args, " "))
	}
	return ds, "go " + strings.Join(args, " "), nil
}

func tailOf(s string, n int) string {
	if len(s) > n {
		return s[len(s)-n:]
	}
	return s
}

type fnExtent struct {
	fn               *ssa.Function
	file             string
	l0, c0, l1, c1   int
}

func (e *fnExtent) contains(file string, l, c int) bool {
	if e.file != file {
		return false
	}
	if l < e.l0 || (l == e.l0 && c < e.c0) {
		return false
	}
	if l > e.l1 || (l == e.l1 && c > e.c1) {
		return false
	}
	return true
}

func (e *fnExtent) size() int { return (e.l1-e.l0)*1000 + e.c1 - e.c0 }

type allocSweep struct {
	p       *Prog
	pc      *PropConfig
	r       *checkResult
	fv      *FuncVC
	diags   []*heapDiag
	extents []*fnExtent
	trusted map[string]bool
	dynOK   map[string]string
	exempt  map[string]map[string]*EffectDecl // function -> what -> decl
	usedEx  map[*EffectDecl]bool
	seen    map[*ssa.Function]bool
	order   []*ssa.Function
	names   map[string]int
	counts  map[string]*FuncReport
	suffix  string
	nCalls  int
	disabledDone map[*ssa.Function]bool
}

func (s *allocSweep) oblige(fn *ssa.Function, detail string, pos token.Pos, ok bool, backend, why string) {
	fname := fn.String() + s.suffix
	name := fname + "#allocfree(" + detail + ")"
	s.names[name]++
	if n := s.names[name]; n > 1 {
		name = fmt.Sprintf("%s@%d", name, n)
	}
	o := &Obligation{Name: name, Kind: "allocfree", Props: []string{s.pc.ID}, Pos: pos, Where: s.p.relPos(pos), Src: why,
		Reach: "true", Goal: "false", Func: fname, fv: s.fv, candidate: true, Block: -1}
	o.Res = SolveResult{Solver: backend, All: map[string]string{backend: map[bool]string{true: "holds", false: "fails"}[ok]}, Output: why}
	fr := s.counts[fname]
	if fr == nil {
		fr = &FuncReport{Name: fname, Arith: "effect"}
		s.counts[fname] = fr
	}
	fr.Obligations++
	if ok {
		o.Status = "discharged"
		o.Res.Verdict = VUnsat
		fr.Discharged++
	} else {
		o.Status = "failed"
		o.Res.Verdict = VUnknown
	}
	s.r.extraObl = append(s.r.extraObl, o)
}

func (s *allocSweep) exemption(fn *ssa.Function, what string) *EffectDecl {
	m := s.exempt[fn.String()]
	if m == nil {
		return nil
	}
	if d := m[what]; d != nil {
		s.usedEx[d] = true
		return d
	}
	return nil
}

// innermost function whose source extent contains the position. A diagnostic
// sitting exactly on the first character of a function literal is about the
// literal itself and belongs to the enclosing function.
func (s *allocSweep) ownerOf(d *heapDiag) *ssa.Function {
	var best *fnExtent
	for _, e := range s.extents {
		if !e.contains(d.file, d.line, d.col) {
			continue
		}
		if e.fn.Parent() != nil && e.l0 == d.line && e.c0 == d.col {
			continue
		}
		if best == nil || e.size() < best.size() {
			best = e
		}
	}
	if best == nil {
		return nil
	}
	return best.fn
}

var allocRootPkg string

func ifaceMethodName(cc *ssa.CallCommon) string {
	t := cc.Value.Type()
	name := types.TypeString(t, func(p *types.Package) string {
		if p == nil || p.Path() == allocRootPkg {
			return ""
		}
		return p.Name()
	})
	return name + "." + cc.Method.Name()
}

func describeFuncValue(v ssa.Value) string {
	switch x := v.(type) {
	case *ssa.UnOp:
		if x.Op == token.MUL {
			switch a := x.X.(type) {
			case *ssa.Global:
				return "var:" + a.Name()
			case *ssa.FieldAddr:
				if pt, ok := a.X.Type().Underlying().(*types.Pointer); ok {
					if st, ok := pt.Elem().Underlying().(*types.Struct); ok {
						tn := "struct"
						if n, ok := pt.Elem().(*types.Named); ok {
							tn = n.Obj().Name()
						}
						return "field:" + tn + "." + st.Field(a.Field).Name()
					}
				}
			}
		}
	case *ssa.Parameter:
		return "param:" + x.Name()
	case *ssa.Field:
		if st, ok := x.X.Type().Underlying().(*types.Struct); ok {
			tn := "struct"
			if n, ok := x.X.Type().(*types.Named); ok {
				tn = n.Obj().Name()
			}
			return "field:" + tn + "." + st.Field(x.Field).Name()
		}
	case *ssa.Phi:
		// all edges the same description (e.g. nil or one variable)
		d := ""
		for _, e := range x.Edges {
			if c, ok := e.(*ssa.Const); ok && c.Value == nil {
				continue
			}
			de := describeFuncValue(e)
			if d != "" && de != d {
				return "value:" + v.Name()
			}
			d = de
		}
		if d != "" {
			return d
		}
	}
	return "value:" + v.Name()
}

func isByteSlice(t types.Type) bool {
	sl, ok := t.Underlying().(*types.Slice)
	if !ok {
		return false
	}
	b, ok := sl.Elem().Underlying().(*types.Basic)
	return ok && b.Kind() == types.Uint8
}

// encoderShaped: first parameter (after the receiver) and first result are
// []byte -- the append-style encoders, in the module and in the library.
func encoderShaped(sig *types.Signature) bool {
	if sig.Params().Len() == 0 || sig.Results().Len() == 0 {
		return false
	}
	return isByteSlice(sig.Params().At(0).Type()) && isByteSlice(sig.Results().At(0).Type())
}

func dstArgIndex(cc *ssa.CallCommon) int {
	if cc.IsInvoke() {
		return 0
	}
	if cc.Signature().Recv() != nil {
		return 1
	}
	return 0
}

// bufDerived: the value is (a slice of) the pooled event/array buffer or the
// dst parameter of an encoder-shaped function.
func bufDerived(fn *ssa.Function, v ssa.Value, depth int, seen map[ssa.Value]bool) bool {
	if depth > 40 || seen[v] {
		return seen[v] // a cycle through a phi: decided by the other edges
	}
	switch x := v.(type) {
	case *ssa.Parameter:
		if !isByteSlice(x.Type()) || !encoderShaped(fn.Signature) {
			return false
		}
		idx := 0
		if fn.Signature.Recv() != nil {
			idx = 1
		}
		return len(fn.Params) > idx && fn.Params[idx] == x
	case *ssa.UnOp:
		if x.Op != token.MUL {
			return false
		}
		if fa, ok := x.X.(*ssa.FieldAddr); ok {
			if pt, ok := fa.X.Type().Underlying().(*types.Pointer); ok {
				if st, ok := pt.Elem().Underlying().(*types.Struct); ok {
					if n, ok := pt.Elem().(*types.Named); ok && (n.Obj().Name() == "Event" || n.Obj().Name() == "Array") {
						return st.Field(fa.Field).Name() == "buf"
					}
				}
			}
		}
		return false
	case *ssa.Slice:
		return bufDerived(fn, x.X, depth+1, seen)
	case *ssa.Phi:
		seen[v] = true
		for _, e := range x.Edges {
			if !bufDerived(fn, e, depth+1, seen) {
				return false
			}
		}
		return true
	case *ssa.Call:
		if b, ok := x.Call.Value.(*ssa.Builtin); ok && b.Name() == "append" {
			return bufDerived(fn, x.Call.Args[0], depth+1, seen)
		}
		if encoderShaped(x.Call.Signature()) {
			return bufDerived(fn, x.Call.Args[dstArgIndex(&x.Call)], depth+1, seen)
		}
	}
	return false
}

func inLoop(b *ssa.BasicBlock) bool {
	// b can reach itself
	seen := map[*ssa.BasicBlock]bool{}
	var stack []*ssa.BasicBlock
	stack = append(stack, b.Succs...)
	for len(stack) > 0 {
		x := stack[len(stack)-1]
		stack = stack[:len(stack)-1]
		if x == b {
			return true
		}
		if seen[x] {
			continue
		}
		seen[x] = true
		stack = append(stack, x.Succs...)
	}
	return false
}

// candidateKind names the instruction if it can allocate.
func candidateKind(in ssa.Instruction) string {
	switch x := in.(type) {
	case *ssa.Alloc:
		return "Alloc"
	case *ssa.MakeSlice:
		return "MakeSlice"
	case *ssa.MakeMap:
		return "MakeMap"
	case *ssa.MakeChan:
		return "MakeChan"
	case *ssa.MakeClosure:
		return "MakeClosure"
	case *ssa.MakeInterface:
		return "MakeInterface"
	case *ssa.Go:
		return "Go"
	case *ssa.Convert:
		from, to := x.X.Type().Underlying(), x.Type().Underlying()
		_, fs := from.(*types.Slice)
		_, ts := to.(*types.Slice)
		fb, fok := from.(*types.Basic)
		tb, tok := to.(*types.Basic)
		if (fs && tok && tb.Info()&types.IsString != 0) || (ts && fok && fb.Info()&types.IsString != 0) {
			return "Convert"
		}
		if fok && tok && fb.Info()&types.IsInteger != 0 && tb.Info()&types.IsString != 0 {
			return "Convert"
		}
	case *ssa.BinOp:
		if x.Op == token.ADD {
			if b, ok := x.Type().Underlying().(*types.Basic); ok && b.Info()&types.IsString != 0 {
				return "Concat"
			}
		}
	}
	return ""
}

func (s *allocSweep) checkFunction(fn *ssa.Function, path []string) {
	if s.seen[fn] {
		return
	}
	s.seen[fn] = true
	s.order = append(s.order, fn)
	here := append(append([]string{}, path...), shortFn(fn))
	via := strings.Join(here, " -> ")
	if len(here) > 6 {
		via = "... -> " + strings.Join(here[len(here)-6:], " -> ")
	}
	// diagnostics that belong to this function
	var mine []*heapDiag
	for _, d := range s.diags {
		if s.ownerOf(d) == fn {
			mine = append(mine, d)
		}
	}
	ord := map[string]int{}
	for _, b := range fn.Blocks {
		for _, in := range b.Instrs {
			if k := candidateKind(in); k != "" {
				ord[k]++
				detail := fmt.Sprintf("%s.%d", k, ord[k])
				if ex := s.exemption(fn, detail); ex != nil {
					continue
				}
				switch k {
				case "Convert", "Concat":
					s.oblige(fn, detail, in.Pos(), false, "effect-rule", fmt.Sprintf("%s at %s: string conversion/concatenation allocates beyond the 32-byte stack buffer, whatever the escape analysis says (reached via %s)", in.String(), s.p.relPos(in.Pos()), via))
				default:
					pos := in.Pos()
					if !pos.IsValid() {
						continue // decided by the per-function diagnostic obligation below
					}
					pp := s.p.Fset.Position(pos)
					var hit *heapDiag
					for _, d := range mine {
						if d.line == pp.Line {
							hit = d
							d.used = true
						}
					}
					if hit != nil {
						s.oblige(fn, detail, pos, false, "go-escape-analysis", fmt.Sprintf("compiler: %s:%d:%d: %s (reached via %s)", s.p.relPos(pos), hit.line, hit.col, hit.msg, via))
					} else {
						s.oblige(fn, detail, pos, true, "go-escape-analysis", "no heap diagnostic on the line of "+in.String())
					}
				}
			}
			if d, ok := in.(*ssa.Defer); ok && inLoop(b) {
				s.oblige(fn, "Defer-in-loop", d.Pos(), false, "effect-rule", "a defer inside a loop is heap-allocated (reached via "+via+")")
			}
			ci, ok := in.(ssa.CallInstruction)
			if !ok {
				continue
			}
			s.checkCall(fn, ci, here, via)
		}
	}
	nOther := 0
	for _, d := range mine {
		if d.used {
			continue
		}
		what := "diag:" + strings.TrimSuffix(strings.TrimSuffix(strings.TrimPrefix(d.msg, "moved to heap: "), " escapes to heap"), " escapes to heap:")
		if s.exemption(fn, what) != nil {
			continue
		}
		nOther++
		s.oblige(fn, "heap-site "+sanitize(what), token.NoPos, false, "go-escape-analysis", fmt.Sprintf("compiler: %s:%d:%d: %s (reached via %s)", d.file, d.line, d.col, d.msg, via))
	}
	if nOther == 0 {
		s.oblige(fn, "no-other-heap-site", fn.Pos(), true, "go-escape-analysis", "the compiler reports no heap allocation inside this function other than at the sites listed")
	}
}

func (s *allocSweep) checkCall(fn *ssa.Function, ci ssa.CallInstruction, here []string, via string) {
	cc := ci.Common()
	pos := ci.Pos()
	s.nCalls++
	if b, ok := cc.Value.(*ssa.Builtin); ok {
		if b.Name() == "append" {
			ok := bufDerived(fn, cc.Args[0], 0, map[ssa.Value]bool{})
			if !ok && s.exemption(fn, "append") != nil {
				return
			}
			why := "append to a slice derived from the pooled buffer (within capacity by the property's own scope)"
			if !ok {
				why = "append to a slice that is not derived from Event.buf / Array.buf / the dst parameter: may grow on the heap (reached via " + via + ")"
			}
			s.oblige(fn, "append", pos, ok, "callgraph", why)
		}
		return
	}
	if cc.IsInvoke() {
		name := ifaceMethodName(cc)
		if s.exemption(fn, "call:"+name) != nil {
			return
		}
		_, ok := s.dynOK[name]
		if !ok {
			ok = s.trusted[name]
		}
		why := "dynamic call " + name + " is one of the listed exclusions / trusted"
		if !ok {
			why = "dynamic call " + name + " is neither a listed exclusion of the property nor trusted allocation-free (reached via " + via + ")"
		}
		s.oblige(fn, "call "+name, pos, ok, "callgraph", why)
		return
	}
	callee := cc.StaticCallee()
	if callee == nil {
		name := describeFuncValue(cc.Value)
		if s.exemption(fn, "call:"+name) != nil {
			return
		}
		_, ok := s.dynOK[name]
		why := "call of function value " + name + " is one of the listed exclusions"
		if !ok {
			why = "call of function value " + name + " is not a listed exclusion of the property (reached via " + via + ")"
		}
		s.oblige(fn, "call "+name, pos, ok, "callgraph", why)
		return
	}
	cname := callee.String()
	short := strings.ReplaceAll(cname, s.p.ModPath+"/", "")
	short = strings.ReplaceAll(short, s.p.ModPath+".", "")
	if s.exemption(fn, "call:"+short) != nil {
		return
	}
	if s.p.inModule(callee) && len(callee.Blocks) > 0 {
		// the dst argument of an encoder must be the pooled buffer
		if encoderShaped(callee.Signature) {
			ok := bufDerived(fn, cc.Args[dstArgIndex(cc)], 0, map[ssa.Value]bool{})
			why := "dst argument derives from the pooled buffer"
			if !ok {
				why = "dst argument of " + short + " is not derived from Event.buf / Array.buf / the dst parameter: its appends may grow on the heap (reached via " + via + ")"
			}
			if ok || s.exemption(fn, "dst:"+short) == nil {
				s.oblige(fn, "dst "+short, pos, ok, "callgraph", why)
			}
		}
		s.checkFunction(callee, here)
		return
	}
	ok := s.trusted[cname]
	if ok && encoderShaped(callee.Signature) && len(cc.Args) > dstArgIndex(cc) {
		// a library appender (strconv.AppendInt, (time.Time).AppendFormat, ...) allocates nothing
		// only while the result fits its dst: the same scope as `append`
		dok := bufDerived(fn, cc.Args[dstArgIndex(cc)], 0, map[ssa.Value]bool{})
		dwhy := "dst argument derives from the pooled buffer"
		if !dok {
			dwhy = "dst argument of " + cname + " is not derived from Event.buf / Array.buf / the dst parameter: its appends may grow on the heap (reached via " + via + ")"
		}
		if dok || s.exemption(fn, "dst:"+cname) == nil {
			s.oblige(fn, "dst "+cname, pos, dok, "callgraph", dwhy)
		}
	}
	why := cname + " is in the trusted allocation-free table"
	if !ok {
		why = cname + " is outside the module and not in the trusted allocation-free table (reached via " + via + ")"
	}
	s.oblige(fn, "call "+cname, pos, ok, "callgraph", why)
}

// nilPathBlocks: the blocks executed when the receiver is nil (entry block
// included; if the method does not test its receiver first, every block).
func nilPathBlocks(fn *ssa.Function) map[*ssa.BasicBlock]bool {
	out := map[*ssa.BasicBlock]bool{}
	if len(fn.Blocks) == 0 || len(fn.Params) == 0 {
		return out
	}
	recv := fn.Params[0]
	var walk func(b *ssa.BasicBlock)
	walk = func(b *ssa.BasicBlock) {
		if out[b] {
			return
		}
		out[b] = true
		if len(b.Instrs) > 0 {
			if br, ok := b.Instrs[len(b.Instrs)-1].(*ssa.If); ok {
				if bo, ok := br.Cond.(*ssa.BinOp); ok && (bo.Op == token.EQL || bo.Op == token.NEQ) {
					isNil := func(v ssa.Value) bool { c, ok := v.(*ssa.Const); return ok && c.Value == nil }
					if (bo.X == recv && isNil(bo.Y)) || (bo.Y == recv && isNil(bo.X)) {
						if bo.Op == token.EQL {
							walk(b.Succs[0])
						} else {
							walk(b.Succs[1])
						}
						return
					}
				}
			}
		}
		for _, s := range b.Succs {
			walk(s)
		}
	}
	walk(fn.Blocks[0])
	return out
}

func (s *allocSweep) checkDisabledPath(fn *ssa.Function) {
	if s.disabledDone[fn] {
		return
	}
	s.disabledDone[fn] = true
	blocks := nilPathBlocks(fn)
	ok := true
	var bad []string
	n := 0
	for _, b := range fn.Blocks {
		if !blocks[b] {
			continue
		}
		for _, in := range b.Instrs {
			n++
			if k := candidateKind(in); k != "" {
				// a site on the nil path: allowed only if the compiler keeps it off the heap
				pos := in.Pos()
				heap := k == "Convert" || k == "Concat"
				if pos.IsValid() {
					pp := s.p.Fset.Position(pos)
					for _, d := range s.diags {
						if d.file == pp.Filename && d.line == pp.Line {
							heap = true
						}
					}
				}
				if heap {
					ok = false
					bad = append(bad, k+" at "+s.p.relPos(pos))
				}
			}
			ci, isCall := in.(ssa.CallInstruction)
			if !isCall {
				continue
			}
			cc := ci.Common()
			if _, isB := cc.Value.(*ssa.Builtin); isB {
				if cc.Value.Name() == "append" {
					ok = false
					bad = append(bad, "append at "+s.p.relPos(ci.Pos()))
				}
				continue
			}
			callee := cc.StaticCallee()
			switch {
			case callee != nil && s.trusted[callee.String()]:
			case callee != nil && s.p.inModule(callee) && s.seen[callee]:
				// carries the effect itself
			case callee != nil && s.p.inModule(callee) && len(callee.Blocks) > 0 && len(cc.Args) > 0 && cc.Args[0] == ssa.Value(fn.Params[0]) && callee.Signature.Recv() != nil && types.Identical(callee.Signature.Recv().Type(), fn.Signature.Recv().Type()):
				// hands the nil receiver on: the callee owes the same on its own nil path
				if !s.disabledDone[callee] {
					s.checkDisabledPath(callee)
				}
			default:
				name := "dynamic"
				if callee != nil {
					name = callee.String()
				} else if cc.IsInvoke() {
					name = ifaceMethodName(cc)
				} else {
					name = describeFuncValue(cc.Value)
				}
				if _, allowed := s.dynOK[name]; allowed {
					continue
				}
				if s.exemption(fn, "nilpath:"+name) != nil {
					continue
				}
				ok = false
				bad = append(bad, "call "+name+" at "+s.p.relPos(ci.Pos()))
			}
		}
	}
	why := fmt.Sprintf("%d instructions on the nil-receiver path: no allocation site, no call outside the effect", n)
	if !ok {
		why = "on the nil-receiver path: " + strings.Join(bad, "; ")
	}
	s.oblige(fn, "disabled-path", fn.Pos(), ok, "callgraph", why)
}

func sweepAllocFree(p *Prog, pc *PropConfig, tags string, r *checkResult) {
	diags, cmdline, err := compilerHeapDiags(p.Root, p.ModPath, tags)
	if err != nil {
		r.errors = append(r.errors, "allocfree sweep: "+err.Error())
		return
	}
	allocRootPkg = p.ModPath
	s := &allocSweep{p: p, pc: pc, r: r, diags: diags, trusted: map[string]bool{}, dynOK: map[string]string{}, exempt: map[string]map[string]*EffectDecl{},
		usedEx: map[*EffectDecl]bool{}, seen: map[*ssa.Function]bool{}, names: map[string]int{}, counts: map[string]*FuncReport{}, disabledDone: map[*ssa.Function]bool{}}
	if tags != "" {
		s.suffix = "[" + tags + "]"
	}
	for _, fn := range p.AllFns {
		if !p.inModule(fn) || fn.Syntax() == nil {
			continue
		}
		a, b := p.Fset.Position(fn.Syntax().Pos()), p.Fset.Position(fn.Syntax().End())
		s.extents = append(s.extents, &fnExtent{fn: fn, file: a.Filename, l0: a.Line, c0: a.Column, l1: b.Line, c1: b.Column})
	}
	var entries []*ssa.Function
	var missing []string
	for _, d := range p.CS.Effects {
		if d.Effect != "allocfree" {
			continue
		}
		switch d.Kind {
		case "trusted":
			for _, w := range d.Words {
				s.trusted[w] = true
			}
		case "dynamic":
			for _, w := range d.Words {
				s.dynOK[w] = d.Reason
			}
		case "exempt":
			if len(d.Words) < 2 {
				r.errors = append(r.errors, fmt.Sprintf("%s:%d: effect allocfree exempt <function> <what> : reason", d.File, d.Line))
				continue
			}
			key := qualify(d.Pkg, d.Words[0])
			if s.exempt[key] == nil {
				s.exempt[key] = map[string]*EffectDecl{}
			}
			s.exempt[key][strings.Join(d.Words[1:], " ")] = d
			if d.Reason == "" {
				r.errors = append(r.errors, fmt.Sprintf("%s:%d: an exemption needs a reason", d.File, d.Line))
			}
		case "entry":
			recv := d.Words[0]
			for _, n := range d.Words[1:] {
				key := ""
				if recv == "func" {
					key = qualify(d.Pkg, n)
				} else {
					key = qualify(d.Pkg, recv+"."+n)
				}
				fn := p.FnByKey[key]
				if fn == nil {
					missing = append(missing, key)
					continue
				}
				entries = append(entries, fn)
			}
		}
	}
	if len(missing) > 0 {
		r.errors = append(r.errors, "allocfree sweep: entry functions not found: "+strings.Join(missing, ", "))
	}
	if len(entries) < 10 {
		r.errors = append(r.errors, fmt.Sprintf("allocfree sweep: only %d entries declared", len(entries)))
		return
	}
	c := &Contract{Key: entries[0].String(), Kind: "func", Pkg: p.ModPath, Mode: ModeInt, Props: []string{pc.ID}, Loops: map[int]*LoopSpec{}, Flags: map[string]string{"replay": "allocfree"}, File: "(sweep allocfree)"}
	s.fv = newFuncVC(p, entries[0], c)
	s.fv.Name = "zerolog.allocfree" + s.suffix
	s.fv.activeProp = pc.ID
	s.fv.replayTemplate = "allocfree"
	for _, e := range entries {
		s.checkFunction(e, nil)
	}
	// disabled path: every exported *Event method
	nDis := 0
	for _, fn := range p.AllFns {
		if fn.Pkg == nil || fn.Pkg.Pkg.Path() != p.ModPath || len(fn.Blocks) == 0 || !token.IsExported(fn.Name()) {
			continue
		}
		if rn, ptr := recvNamed(fn); rn == "Event" && ptr {
			s.checkDisabledPath(fn)
			nDis++
		}
	}
	var unused []string
	for _, m := range s.exempt {
		for what, d := range m {
			if !s.usedEx[d] {
				unused = append(unused, d.Words[0]+" "+what)
			}
		}
	}
	sort.Strings(unused)
	var names []string
	for _, f := range s.order {
		names = append(names, shortFn(f))
	}
	sort.Strings(names)
	r.notes = append(r.notes, fmt.Sprintf("allocfree sweep [%s]: %d entries, %d functions carry the effect, %d call sites, %d heap diagnostics from `%s`, %d *Event methods checked on the nil-receiver path", buildName(tags), len(entries), len(s.order), s.nCalls, len(diags), cmdline, nDis))
	r.notes = append(r.notes, "functions carrying `allocates nothing` ["+buildName(tags)+"]: "+strings.Join(names, ", "))
	if len(unused) > 0 {
		r.notes = append(r.notes, "exemptions that matched nothing in this build: "+strings.Join(unused, "; "))
	}
	for _, d := range p.CS.Effects {
		if d.Effect == "allocfree" && (d.Kind == "exempt" && s.usedEx[d]) {
			r.trusted["C07 scope exemption: "+strings.Join(d.Words, " ")+" — "+d.Reason] = true
		}
		if d.Effect == "allocfree" && d.Kind == "dynamic" {
			r.trusted["C07 excluded dynamic call (assumed allocation-free): "+strings.Join(d.Words, " ")+" — "+d.Reason] = true
		}
	}
	r.trusted["C07: the Go compiler's escape analysis (gc -m) decides whether an allocation site reaches the heap; inlined copies are attributed to the function whose source contains the site"] = true
	r.trusted["C07: library functions in the `effect allocfree trusted` table do not allocate; append within capacity does not allocate; a warm sync.Pool"] = true
	var frs []string
	for n := range s.counts {
		frs = append(frs, n)
	}
	sort.Strings(frs)
	for _, n := range frs {
		r.reports = append(r.reports, *s.counts[n])
	}
}
