package main

import (
	"fmt"
	"go/constant"
	"go/token"
	"go/types"
	"strings"

	"golang.org/x/tools/go/ssa"
)

func constantString(c *ssa.Const) string { return constant.StringVal(c.Value) }

// native models a few library functions directly (trusted; listed in the
// evidence). Returns true when the call was handled.
func (fv *FuncVC) native(v ssa.Value, f *ssa.Function, cc *ssa.CallCommon, args []Val, ats []types.Type, rts []types.Type, pos token.Pos) bool {
	name := f.String()
	trust := func(what string) { fv.trustedUse["native:"+what] = true }
	if strings.HasPrefix(name, "sync/atomic.") {
		op := strings.TrimPrefix(name, "sync/atomic.")
		if tr := fv.P.trackedName(cc); tr != "" {
			idx := fv.logAppend(tr, args, ats)
			defer func() {
				if val, ok := fv.vals[v]; ok && v != nil && val.T.S != "" {
					fv.logResults(tr, idx, []Val{val})
				}
			}()
		}
		lvOf := func(a Val, at types.Type) *LValue {
			if a.LV != nil {
				return a.LV
			}
			return fv.derefLV(a, at)
		}
		trust("sync/atomic." + op + " is one indivisible sequentially consistent step")
		switch {
		case strings.HasPrefix(op, "Add"):
			lv := lvOf(args[0], ats[0])
			old := fv.loadShared(lv, pos)
			d := fv.asTerm(args[1], ats[1])
			var nv Term
			if fv.Mode == ModeBV {
				nv = Term{S: app("bvadd", old.S, d.S), Sort: old.Sort}
			} else {
				// atomic adds wrap
				nv = fv.convInt(Term{S: app("+", old.S, d.S), Sort: Sort{Kind: KInt, W: 128, Signed: true}}, old.Sort)
			}
			n := fv.fresh("atomicadd", old.Sort)
			n.Go = rts[0]
			fv.assert(app("=", n.S, nv.S))
			fv.store(fv.cur, lv, n)
			fv.setResult(v, []Val{{T: n}})
			return true
		case strings.HasPrefix(op, "Load"):
			lv := lvOf(args[0], ats[0])
			t := fv.loadShared(lv, pos)
			n := fv.fresh("atomicload", t.Sort)
			n.Go = rts[0]
			fv.assert(app("=", n.S, t.S))
			fv.assert(fv.wf(n, rts[0]))
			fv.setResult(v, []Val{{T: n}})
			return true
		case strings.HasPrefix(op, "Store"):
			lv := lvOf(args[0], ats[0])
			fv.storeShared(lv, fv.asTerm(args[1], ats[1]), pos)
			fv.setResult(v, nil)
			return true
		case strings.HasPrefix(op, "CompareAndSwap"):
			lv := lvOf(args[0], ats[0])
			cur := fv.loadShared(lv, pos)
			o := fv.asTerm(args[1], ats[1])
			nw := fv.asTerm(args[2], ats[2])
			ok := fv.fresh("cas_ok", SBool)
			fv.assert(app("=", ok.S, app("=", cur.S, o.S)))
			st0 := fv.cur.clone()
			fv.storeShared(lv, nw, pos)
			st1 := fv.cur
			fv.cur = fv.mergeStates([]*State{st1, st0}, []string{ok.S, smtNot(ok.S)}, fmt.Sprintf("cas%d", fv.callN))
			fv.setResult(v, []Val{{T: ok}})
			return true
		case strings.HasPrefix(op, "Swap"):
			lv := lvOf(args[0], ats[0])
			cur := fv.loadShared(lv, pos)
			n := fv.fresh("atomicswap", cur.Sort)
			n.Go = rts[0]
			fv.assert(app("=", n.S, cur.S))
			fv.storeShared(lv, fv.asTerm(args[1], ats[1]), pos)
			fv.setResult(v, []Val{{T: n}})
			return true
		}
		return false
	}
	switch name {
	case "(*sync.Pool).Get", "(*sync.Pool).Put":
		// only pools declared with `//@ pool <global> <type>`
		var g *ssa.Global
		if u, ok := cc.Args[0].(*ssa.UnOp); ok {
			g, _ = u.X.(*ssa.Global)
		} else if gg, ok := cc.Args[0].(*ssa.Global); ok {
			// a pool declared as a value (`var p = sync.Pool{...}`): the receiver is the global's address
			g = gg
		}
		if g == nil {
			return false
		}
		tn, ok := fv.P.CS.Pools[g.Pkg.Pkg.Path()+"."+g.Name()]
		if !ok {
			return false
		}
		pred := ""
		if f := strings.Fields(tn); len(f) == 2 {
			tn, pred = f[0], f[1]
		}
		env := fv.newEnv(fv.cur, fv.entry)
		env.pkgOverride = g.Pkg.Pkg.Path()
		var gt types.Type
		if tn == "[]byte" {
			gt = types.NewSlice(types.Typ[types.Byte])
		} else {
			gt = env.lookupType(tn)
		}
		if !pointerShaped(gt) {
			// a pool of values (slices): no identity-based ownership, only the declared predicate
			trust("sync.Pool " + g.Name() + " holds only " + tn + " values satisfying " + pred + " (every Put is checked; New is assumed to comply)")
			b, u := fv.boxFuncs(gt)
			if strings.HasSuffix(name, "Get") {
				val := fv.freshWF("pooled", gt)
				val.Go = gt
				if sf := fv.P.CS.Specs[pred]; sf != nil {
					fv.assume(env.specCall(sf, []Term{val}).S)
				}
				if val.Sort.Kind == KBytes || val.Sort.Kind == KSlice {
					// pooled storage was allocated earlier and is nobody else's
					fv.assume(smtAnd(app(">", fv.baseOf(val), "0"), app("<=", fv.baseOf(val), fv.ghostTerm(fv.cur, "alloc", SMath).S)))
					fv.assume(app("=", app("poolowned", fv.baseOf(val)), "true"))
				}
				ref := app(b, val.S)
				fv.assert(app("=", app(u, ref), val.S))
				fv.setResult(v, []Val{{T: Term{S: fmt.Sprintf("(mk_Iface %d %s)", fv.tagOf(gt), ref), Sort: SIface, Go: rts[0]}}})
				return true
			}
			x := fv.asTerm(args[1], ats[1])
			goal := app("=", app("Iface_tag", x.S), fmt.Sprint(fv.tagOf(gt)))
			if sf := fv.P.CS.Specs[pred]; sf != nil {
				pv := Term{S: app(u, app("Iface_ref", x.S)), Sort: fv.sortOf(gt), Go: gt}
				goal = smtAnd(goal, env.specCall(sf, []Term{pv}).S)
			}
			fv.oblige("pool", "put", nil, pos, goal, "only "+tn+" values satisfying "+pred+" are put into "+g.Name())
			fv.setResult(v, nil)
			return true
		}
		trust("sync.Pool " + g.Name() + " holds only non-nil " + tn + " values " + pred + " and hands each to one owner at a time (every Put is checked to supply that)")
		okey := "owned." + structName(gt.(*types.Pointer).Elem())
		h := fv.heapTerm(fv.cur, okey, SBool)
		if strings.HasSuffix(name, "Get") {
			r := fv.fresh("pooled", SRef)
			r.Go = gt
			a := fv.ghostTerm(fv.cur, "alloc", SMath)
			na := fv.fresh("G_alloc_get", SMath)
			fv.assert(smtAnd(app(">", r.S, "0"), app(">=", na.S, a.S), app("<=", r.S, na.S)))
			fv.cur.ghost["alloc"] = na
			// exclusive: nobody owned it while it sat in the pool
			fv.assume(smtNot(app("select", h.S, r.S)))
			fv.cur.heap[okey] = Term{S: app("store", h.S, r.S, "true"), Sort: SBool}
			if sf := fv.P.CS.Specs[pred]; sf != nil {
				fv.assume(env.specCall(sf, []Term{r}).S)
			}
			fv.setResult(v, []Val{{T: Term{S: fmt.Sprintf("(mk_Iface %d %s)", fv.tagOf(gt), r.S), Sort: SIface, Go: rts[0]}}})
			return true
		}
		x := fv.asTerm(args[1], ats[1])
		fv.oblige("pool", "put-type", nil, pos, smtAnd(app("=", app("Iface_tag", x.S), fmt.Sprint(fv.tagOf(gt))), smtNot(app("=", app("Iface_ref", x.S), "0"))), "only non-nil "+tn+" values are put into "+g.Name())
		if sf := fv.P.CS.Specs[pred]; sf != nil {
			fv.oblige("pool", "put-pred", nil, pos, env.specCall(sf, []Term{{S: app("Iface_ref", x.S), Sort: SRef, Go: gt}}).S, "every value put into "+g.Name()+" satisfies "+pred)
		}
		if fv.C != nil && fv.C.Flags["ownership"] != "" {
			fv.oblige("owned", "put", nil, pos, app("select", h.S, app("Iface_ref", x.S)), "the object returned to the pool is owned by the caller")
		}
		fv.cur.heap[okey] = Term{S: app("store", h.S, app("Iface_ref", x.S), "false"), Sort: SBool}
		fv.setResult(v, nil)
		return true
	case "(*sync.Mutex).Lock", "(*sync.Mutex).Unlock":
		trust("sync.Mutex: Lock/Unlock give mutual exclusion; ghost held(mu)")
		key, ref := fv.mutexKey(args[0])
		h := fv.heapTerm(fv.cur, key, SBool)
		if strings.HasSuffix(name, "Unlock") {
			fv.oblige("held", "unlock", nil, pos, app("select", h.S, ref), "Unlock of a mutex that is held")
			fv.cur.heap[key] = Term{S: app("store", h.S, ref, "false"), Sort: SBool}
		} else {
			fv.cur.heap[key] = Term{S: app("store", h.S, ref, "true"), Sort: SBool}
		}
		fv.setResult(v, nil)
		return true
	}
	return false
}

func (fv *FuncVC) mutexKey(a Val) (string, string) {
	if a.LV != nil && a.LV.Kind == LHeap {
		return "held." + a.LV.HKey, a.LV.Ref
	}
	if a.LV != nil && a.LV.Kind == LGlobal {
		return "held.global." + a.LV.Global.Name(), "0"
	}
	if a.LV == nil {
		return "held.ptr", a.T.S
	}
	fv.unsupported("mutex that is neither a struct field nor a global")
	return "", ""
}

// loadShared / storeShared are the access paths of atomic operations. With
// the contract flag `interference` every atomic read of a shared location
// returns an arbitrary value constrained only by the declared interference
// invariant (rely), and every atomic write must re-establish it (guarantee).
func (fv *FuncVC) loadShared(lv *LValue, pos token.Pos) Term {
	t := fv.load(fv.cur, lv)
	if fv.C == nil || fv.C.Flags["interference"] == "" {
		return t
	}
	if !fv.sharedLV(lv) {
		return t
	}
	// other threads may have written since: havoc the location, assume the invariant
	var gt types.Type = lv.Type
	h := fv.freshWF("shared", gt)
	h.Go = gt
	if h.Sort.Kind == KRef {
		// whatever another goroutine stored was allocated before now
		fv.assert(app("<=", h.S, fv.ghostTerm(fv.cur, "alloc", SMath).S))
	}
	fv.store(fv.cur, lv, h)
	fv.assumeInterferenceInv(lv, pos)
	return fv.load(fv.cur, lv)
}

func (fv *FuncVC) storeShared(lv *LValue, v Term, pos token.Pos) {
	fv.store(fv.cur, lv, v)
}

func (fv *FuncVC) sharedLV(lv *LValue) bool {
	spec := fv.C.Flags["interference"]
	for _, f := range strings.Fields(strings.ReplaceAll(spec, ",", " ")) {
		switch lv.Kind {
		case LHeap:
			if strings.HasSuffix(lv.HKey, "."+f) {
				return true
			}
		case LElem:
			if fa, ok := lv.Slice.(*ssa.UnOp); ok {
				if fad, ok := fa.X.(*ssa.FieldAddr); ok {
					st := fad.X.Type().Underlying().(*types.Pointer).Elem()
					if st.Underlying().(*types.Struct).Field(fad.Field).Name() == f {
						return true
					}
				}
			}
		}
	}
	return false
}

func (fv *FuncVC) assumeInterferenceInv(lv *LValue, pos token.Pos) {
	// the rely invariant is stated as `requires` clauses tagged by the flag
	// `rely`: they are re-assumed after every interference point.
	if fv.C == nil {
		return
	}
	env := fv.newEnv(fv.cur, fv.entry)
	env.assuming = true
	for _, r := range fv.C.Requires {
		for _, idx := range strings.Fields(strings.ReplaceAll(fv.C.Flags["rely"], ",", " ")) {
			if idx == fmt.Sprint(r.Idx) {
				fv.assume(env.evalBool(r.E, r))
			}
		}
	}
	if lv.Kind == LElem {
		sl := lv.SliceT
		if o, ok := fv.cur.slices[lv.Slice]; ok {
			sl = o
		}
		fv.instantiateAt(fv.arrOf(sl), lv.Idx)
	}
}
