package main

import (
	"fmt"
	"strings"

	"golang.org/x/tools/go/ssa"
)

func init() { sweepTable["samplecalls"] = sweepSampleCalls }

// sweepSampleCalls (C13): "admits exactly ceil(k/N) of any k sampled events"
// counts events, and the sampler contracts count Sample calls; the two agree
// only if every event consults its logger's sampler exactly once. The SMT
// contracts give "newEvent calls should exactly once" and "should calls
// Sample at most once, and not at all behind the level gate". This sweep
// closes the call graph around them: nothing but (*Logger).newEvent calls
// (*Logger).should, and nothing but should and the composing samplers
// (BurstSampler.Sample -> NextSampler, LevelSampler.Sample -> per-level
// sampler) invokes Sampler.Sample.
func sweepSampleCalls(p *Prog, pc *PropConfig, tags string, r *checkResult) {
	s := &ownSweep{p: p, pc: pc, r: r, names: map[string]int{}, counts: map[string]*FuncReport{}, backendName: "callgraph"}
	var anchor *ssa.Function
	for _, fn := range p.AllFns {
		if fn.String() == "(*"+p.ModPath+".Logger).should" {
			anchor = fn
		}
	}
	if anchor == nil {
		r.errors = append(r.errors, "samplecalls: (*Logger).should not found")
		return
	}
	c := &Contract{Key: anchor.String(), Kind: "func", Pkg: p.ModPath, Mode: ModeInt, Props: []string{pc.ID}, Loops: map[int]*LoopSpec{}, Flags: map[string]string{}, File: "(sweep samplecalls)"}
	s.fv = newFuncVC(p, anchor, c)
	s.fv.Name = "zerolog.samplecalls"
	s.fv.activeProp = pc.ID
	allowedShould := map[string]bool{"(*" + p.ModPath + ".Logger).newEvent": true}
	allowedSample := map[string]bool{
		"(*" + p.ModPath + ".Logger).should":       true,
		"(*" + p.ModPath + ".BurstSampler).Sample": true,
		"(" + p.ModPath + ".LevelSampler).Sample":  true,
	}
	nShould, nSample := 0, 0
	for _, fn := range p.AllFns {
		if len(fn.Blocks) == 0 || !p.inModule(fn) || strings.HasSuffix(p.Fset.Position(fn.Pos()).Filename, "_test.go") {
			continue
		}
		if fn.Synthetic != "" {
			continue // wrappers and bound-method thunks only forward
		}
		for _, b := range fn.Blocks {
			for _, in := range b.Instrs {
				cl, ok := in.(ssa.CallInstruction)
				if !ok {
					continue
				}
				cc := cl.Common()
				if cal := cc.StaticCallee(); cal == anchor {
					nShould++
					ok := allowedShould[fn.String()]
					why := "should() is consulted by (*Logger).newEvent, once per event"
					if !ok {
						why = shortFn(fn) + " calls should() itself: an event that also goes through newEvent is charged to a stateful sampler twice (or a decision is taken that no event follows)"
					}
					s.oblige(fn, "samplecalls", "should", in.Pos(), ok, why)
				}
				if cc.IsInvoke() && cc.Method.Name() == "Sample" && strings.HasSuffix(cc.Value.Type().String(), ".Sampler") {
					nSample++
					ok := allowedSample[fn.String()]
					why := "Sampler.Sample is invoked by should() or by a composing sampler"
					if !ok {
						why = shortFn(fn) + " invokes Sampler.Sample outside should() and the composing samplers: sampler budget is consumed without an event"
					}
					s.oblige(fn, "samplecalls", "Sample", in.Pos(), ok, why)
				}
			}
		}
	}
	if nShould == 0 || nSample < 3 {
		r.errors = append(r.errors, fmt.Sprintf("samplecalls: found %d calls of should and %d invocations of Sampler.Sample (expected at least 1 and 3)", nShould, nSample))
	}
	r.notes = append(r.notes, fmt.Sprintf("samplecalls sweep: %d calls of (*Logger).should, %d invocations of Sampler.Sample in the module", nShould, nSample))
	for _, fr := range s.counts {
		r.reports = append(r.reports, *fr)
	}
}
