#!/usr/bin/env python3
"""evalseed.py <seed_dir> <seed_id> <prop> [<prop>...]
Confirms a seeded change against the current /repo HEAD (scratch worktree under /tmp, removed afterwards):
 (a) patch applies, builds, existing suite passes; (b) demo fails with the patch; (c) demo passes without it.
Then applies the patch to /repo itself, runs the registered quick checks of the given properties, and undoes it.
Writes /verif/seeded/<seed_id>/{patch.diff,demo_test.go,meta.json}."""
import json, os, re, shutil, subprocess, sys
ENV = dict(os.environ, GOFLAGS='-mod=mod', GOPROXY='off', GOSUMDB='off', GOTOOLCHAIN='local')
def run(cmd, cwd=None, timeout=1800):
    p = subprocess.run(cmd, shell=True, cwd=cwd, env=ENV, capture_output=True, text=True, timeout=timeout)
    return p.returncode, (p.stdout + p.stderr)
seed_dir, sid, props = sys.argv[1], sys.argv[2], sys.argv[3:]
patch = os.path.join(seed_dir, 'patch.diff')
demo = [f for f in os.listdir(seed_dir) if f.endswith('.go')]
meta = json.load(open(os.path.join(seed_dir, 'meta.json'))) if os.path.exists(os.path.join(seed_dir, 'meta.json')) else {}
wt = '/tmp/evalwt_' + sid
run(f'git -C /repo worktree remove --force {wt}'); shutil.rmtree(wt, ignore_errors=True)
rc, out = run(f'git -C /repo worktree add -q --detach {wt} HEAD'); assert rc == 0, out
res = {'seed': sid, 'properties': props, 'summary': meta.get('summary'), 'needs': meta.get('needs'), 'ran': []}
def finish(keep):
    run(f'git -C /repo worktree remove --force {wt}'); shutil.rmtree(wt, ignore_errors=True)
    res['kept'] = keep
    print(json.dumps(res, indent=1))
    if keep:
        d = f'/verif/seeded/{sid}'; os.makedirs(d, exist_ok=True)
        shutil.copy(patch, d + '/patch.diff')
        for f in demo: shutil.copy(os.path.join(seed_dir, f), d + '/' + f)
        json.dump(res, open(d + '/meta.json', 'w'), indent=1)
    sys.exit(0)
rc, out = run(f'git apply --check {patch}', cwd=wt)
if rc != 0:
    rc, out = run(f'git apply -3 {patch}', cwd=wt)
    if rc != 0:
        res['ran'].append('patch does not apply to the current tree: ' + out[-300:]); finish(False)
else:
    run(f'git apply {patch}', cwd=wt)
# regenerate the patch against the current tree (line numbers may have moved)
rc, cur_patch = run('git diff', cwd=wt)
patch_cur = '/tmp/evalseed_cur_' + sid + '.diff'; open(patch_cur, 'w').write(cur_patch)
def place_demo():
    placed = []
    for f in demo:
        src = open(os.path.join(seed_dir, f)).read()
        m = re.search(r'place in:\s*(\S+)', src) or re.search(r'^// dir:\s*(\S+)', src, re.M)
        d = m.group(1) if m else '.'
        dst = os.path.join(wt, d, 'zz_seed_' + f if f.endswith('_test.go') else 'zz_seed_' + f.replace('.go', '_test.go'))
        open(dst, 'w').write(src); placed.append((dst, d, src))
    return placed
def run_demo():
    placed = place_demo(); ok = True; outs = ''
    for dst, d, src in placed:
        tags = '-tags binary_log' if (re.search(r'//go:build\s+binary_log', src) or re.search(r'^// tags:.*binary_log', src, re.M)) else ''
        if re.search(r'^// race:\s*true', src, re.M): tags += ' -race'
        names = '|'.join(re.findall(r'^func (Test\w+)', src, re.M)) or '.'
        rc, out = run(f'go test -vet=off -count=1 {tags} -run "^({names})$" ./{d}', cwd=wt, timeout=900)
        outs += out[-1500:]; ok = ok and rc == 0
    for dst, d, src in placed: os.remove(dst)
    return ok, outs
ok, out = run_demo()
res['ran'].append('demo with patch: ' + ('PASS (bug does not manifest on the current tree)' if ok else 'FAIL as expected'))
if ok: finish(False)
rc, out = run('go build ./... && go test -vet=off -count=1 . ./diode/... ./hlog/... ./internal/... ./log/... ./pkgerrors/... && go test -vet=off -count=1 -tags binary_log .', cwd=wt)
res['ran'].append('existing suite with patch (journald excluded: no socket in the sandbox): ' + ('pass' if rc == 0 else 'FAIL ' + out[-400:]))
if rc != 0: finish(False)
run('git checkout -- .', cwd=wt)
ok, out = run_demo()
INWT = os.environ.get('EVALSEED_WORKTREE') == '1' 
res['ran'].append('demo without patch: ' + ('PASS' if ok else 'FAIL ' + out[-300:]))
if not ok: finish(False)
# now the checks, on /repo itself
if INWT:
    rc, out = run(f'git apply {patch_cur}', cwd=wt); assert rc == 0, out
    res['ran'].append('checks run against the patched scratch worktree (govc -repo), not /repo')
else:
    rc, st = run('git -C /repo status --porcelain --untracked-files=no')
    assert st.strip() == '', 'uncommitted changes in /repo: ' + st
    rc, out = run(f'git -C /repo apply {patch_cur}'); assert rc == 0, out
    res['ran'].append('patch applied to /repo itself (git apply), registered quick checks run, then git checkout -- .')
res['checks'] = {}
try:
    for p in props:
        if INWT:
            rc, out = run(f'/verif/bin/govc check -prop {p} -tier quick -repo {wt} -noevidence', cwd='/verif', timeout=3000)
        else:
            rc, out = run(f'./check {p} quick', cwd='/verif', timeout=3000)
        v = [l for l in out.splitlines() if l.startswith('VIOLATION') or l.startswith('CHECK-ERROR')]
        res['checks'][p] = {'exit': rc, 'lines': [l[:260] for l in v[:8]], 'n_violations': len([l for l in v if l.startswith('VIOLATION')])}
finally:
    if not INWT:
        run('git -C /repo checkout -- .')
res['caught_by'] = [p for p in props if res['checks'][p]['exit'] == 1]
finish(True)
