package main

import "fmt"

// tryReplay attempts to reproduce a failed obligation against the real code.
func tryReplay(verif, prop string, o *Obligation, rf *replayFile) {
}

func cmdReplay(args []string) int {
	fmt.Println("replay: see the replay file's replay_test field; run it with go test -overlay")
	return 0
}
