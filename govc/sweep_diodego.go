package main

import (
	"fmt"
	"strings"

	"golang.org/x/tools/go/ssa"
)

func init() { sweepTable["diodego"] = sweepDiodeGo }

// sweepDiodeGo (C11): "delivered or reported by the time Close returns" needs
// everything that delivers or reports to happen on the consumer goroutine that
// Close waits for (or on the caller's own goroutine). The only goroutines the
// diode packages and the Fatal path may start are the consumer loop (NewWriter
// -> poll) and the cancellation watcher of NewWaiter; a delivery, an alert or
// the Close of the Fatal path handed to another goroutine escapes that wait.
func sweepDiodeGo(p *Prog, pc *PropConfig, tags string, r *checkResult) {
	s := &ownSweep{p: p, pc: pc, r: r, names: map[string]int{}, counts: map[string]*FuncReport{}, backendName: "ssa-dataflow"}
	var anchor *ssa.Function
	for _, fn := range p.AllFns {
		if fn.String() == p.ModPath+"/diode.NewWriter" {
			anchor = fn
		}
	}
	if anchor == nil {
		r.errors = append(r.errors, "diodego: diode.NewWriter not found")
		return
	}
	c := &Contract{Key: anchor.String(), Kind: "func", Pkg: p.ModPath, Mode: ModeInt, Props: []string{pc.ID}, Loops: map[int]*LoopSpec{}, Flags: map[string]string{}, File: "(sweep diodego)"}
	s.fv = newFuncVC(p, anchor, c)
	s.fv.Name = "diode.goroutines"
	s.fv.activeProp = pc.ID
	s.fv.replayTemplate = "diode_poll"
	n, allowed := 0, 0
	inScope := func(fn *ssa.Function) bool {
		pk := fn.Pkg
		for q := fn; pk == nil && q != nil; q = q.Parent() {
			pk = q.Pkg
		}
		if pk == nil {
			return false
		}
		path := pk.Pkg.Path()
		if strings.HasPrefix(path, p.ModPath+"/diode") {
			return true
		}
		// the exit callback of Logger.Fatal
		return path == p.ModPath && fn.Parent() != nil && fn.Parent().Name() == "Fatal"
	}
	for _, fn := range p.AllFns {
		if len(fn.Blocks) == 0 || !p.inModule(fn) || !inScope(fn) {
			continue
		}
		for _, b := range fn.Blocks {
			for _, in := range b.Instrs {
				g, ok := in.(*ssa.Go)
				if !ok {
					continue
				}
				n++
				callee := g.Call.StaticCallee()
				name := "dynamic call"
				if callee != nil {
					name = shortFn(callee)
				}
				ok2 := false
				switch {
				case fn.String() == p.ModPath+"/diode.NewWriter" && callee != nil && callee.Name() == "poll":
					ok2 = true
				case fn.String() == p.ModPath+"/diode/internal/diodes.NewWaiter" && callee != nil && callee.Parent() == fn:
					ok2 = true
				}
				if ok2 {
					allowed++
				}
				why := fmt.Sprintf("go %s in %s is the consumer loop / the cancellation watcher", name, shortFn(fn))
				if !ok2 {
					why = fmt.Sprintf("go %s in %s: work handed to a goroutine that Close does not wait for (deliveries, alerts and the Fatal-path Close must finish before Close / os.Exit)", name, shortFn(fn))
				}
				s.oblige(fn, "goroutine", name, in.Pos(), ok2, why)
			}
		}
	}
	if allowed < 2 {
		r.errors = append(r.errors, fmt.Sprintf("diodego: found only %d of the 2 expected go statements (consumer loop, cancellation watcher)", allowed))
	}
	r.notes = append(r.notes, fmt.Sprintf("diodego sweep: %d go statements in the diode packages and the Fatal callback", n))
	for _, fr := range s.counts {
		r.reports = append(r.reports, *fr)
	}
}
