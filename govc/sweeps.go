package main

import "fmt"

// runSweep dispatches the zero-annotation sweeps (filled in per sweep file).
func runSweep(p *Prog, pc *PropConfig, name, tags string, r *checkResult) {
	f, ok := sweepTable[name]
	if !ok {
		r.errors = append(r.errors, fmt.Sprintf("unknown sweep %q in props.json", name))
		return
	}
	f(p, pc, tags, r)
}

var sweepTable = map[string]func(p *Prog, pc *PropConfig, tags string, r *checkResult){}
