package main

import (
	"fmt"
	"os"
	"go/token"
	"go/types"
	"sort"
	"strings"

	"golang.org/x/tools/go/ssa"
)

func init() { sweepTable["agreement"] = sweepAgreement }

// sweepAgreement (C02, second half of the statement): the same (type, value)
// encodes identically through every entry point. Every front end hands its
// value to one encoder primitive; agreement is the statement that all front
// ends of one field type call the *same* primitive with the *same* other
// arguments (the globals the property names, read at the call). The sweep
// derives, from the SSA of the working tree,
//
//	front     for every exported method M(key, v...) of *Event that has exactly
//	          one value-encoder call: Context.M and (*Array).M, where they
//	          exist, make the same call -- same encoder method, value arguments
//	          in the same positions, same globals/constants elsewhere.
//	field     every arm `case T:` of the type switch in appendFieldList makes
//	          the call of the *Event method whose value parameter has type T
//	          (for []byte the documented choice, Bytes); every arm `case *T:`
//	          makes the call of arm T on the dereferenced value.
//	element   every slice encoder AppendTs encodes each element by calling
//	          AppendT, or by the very call AppendT itself makes (same library
//	          function, same conversion, same other arguments).
//
// Dict() and Object() build on *Event methods, so they agree by construction.
type encCall struct {
	callee string
	args   []string
	pos    token.Pos
}

func (c encCall) String() string { return c.callee + "(" + strings.Join(c.args, ", ") + ")" }

var structuralEnc = map[string]bool{
	"AppendKey": true, "AppendArrayDelim": true, "AppendArrayStart": true, "AppendArrayEnd": true, "AppendBeginMarker": true,
	"AppendEndMarker": true, "AppendLineBreak": true, "AppendObjectData": true,
}

func isEncoderMethod(f *ssa.Function) bool {
	if f == nil || f.Signature.Recv() == nil {
		return false
	}
	rn, _ := recvNamed(f)
	return rn == "Encoder" && f.Pkg != nil && strings.Contains(f.Pkg.Pkg.Path(), "/internal/")
}

// describe renders a value as a function of the front end's value parameters
// (named by position), globals and constants.
func describeVal(v ssa.Value, params map[ssa.Value]string, depth int) string {
	if n, ok := params[v]; ok {
		return n
	}
	if depth > 6 {
		return "?"
	}
	switch x := v.(type) {
	case *ssa.Const:
		if x.Value == nil {
			return "nil"
		}
		return "const:" + x.Value.ExactString()
	case *ssa.UnOp:
		if x.Op == token.MUL {
			if g, ok := x.X.(*ssa.Global); ok {
				return "global:" + g.Name()
			}
			return "*" + describeVal(x.X, params, depth+1)
		}
		return x.Op.String() + describeVal(x.X, params, depth+1)
	case *ssa.Convert:
		return "conv[" + types.TypeString(x.Type(), func(*types.Package) string { return "" }) + "](" + describeVal(x.X, params, depth+1) + ")"
	case *ssa.ChangeType:
		return describeVal(x.X, params, depth+1)
	case *ssa.MakeInterface:
		return describeVal(x.X, params, depth+1)
	case *ssa.BinOp:
		return "(" + describeVal(x.X, params, depth+1) + " " + x.Op.String() + " " + describeVal(x.Y, params, depth+1) + ")"
	case *ssa.Call:
		var as []string
		for _, a := range x.Call.Args {
			as = append(as, describeVal(a, params, depth+1))
		}
		name := "dyn"
		if f := x.Call.StaticCallee(); f != nil {
			name = f.String()
		} else if x.Call.IsInvoke() {
			name = "invoke " + x.Call.Method.Name() + " on " + describeVal(x.Call.Value, params, depth+1)
		} else {
			name = "call " + describeVal(x.Call.Value, params, depth+1)
		}
		return name + "(" + strings.Join(as, ", ") + ")"
	case *ssa.Slice:
		return "slice(" + describeVal(x.X, params, depth+1) + ")"
	case *ssa.IndexAddr:
		return describeVal(x.X, params, depth+1) + "[" + describeVal(x.Index, params, depth+1) + "]"
	case *ssa.Extract:
		return fmt.Sprintf("extract%d(%s)", x.Index, describeVal(x.Tuple, params, depth+1))
	case *ssa.TypeAssert:
		return describeVal(x.X, params, depth+1)
	case *ssa.Phi:
		return "phi"
	case *ssa.Parameter:
		return "param:" + x.Name()
	case *ssa.FieldAddr:
		if pt, ok := x.X.Type().Underlying().(*types.Pointer); ok {
			if st, ok := pt.Elem().Underlying().(*types.Struct); ok {
				return describeVal(x.X, params, depth+1) + "." + st.Field(x.Field).Name()
			}
		}
	case *ssa.Alloc:
		// the spill slot of a by-value parameter: written once, at entry, with the parameter
		var src ssa.Value
		n := 0
		if refs := x.Referrers(); refs != nil {
			for _, ref := range *refs {
				if st, ok := ref.(*ssa.Store); ok && st.Addr == ssa.Value(x) {
					n++
					src = st.Val
				}
			}
		}
		if prm, ok := src.(*ssa.Parameter); ok && n == 1 {
			return "param:" + prm.Name()
		}
	}
	return "?" + v.Name()
}

// valueEncCalls: the value-encoder calls of a front end (non-structural
// Encoder methods), with arguments after dst described.
func valueEncCalls(fn *ssa.Function, params map[ssa.Value]string) (calls []encCall, otherFrontCalls int) {
	for _, b := range fn.Blocks {
		for _, in := range b.Instrs {
			c, ok := in.(*ssa.Call)
			if !ok {
				continue
			}
			f := c.Call.StaticCallee()
			if f == nil {
				continue
			}
			if isEncoderMethod(f) {
				if structuralEnc[f.Name()] {
					continue
				}
				ec := encCall{callee: f.Name(), pos: c.Pos()}
				for _, a := range c.Call.Args[2:] { // receiver, dst, then the rest
					ec.args = append(ec.args, describeVal(a, params, 0))
				}
				calls = append(calls, ec)
				continue
			}
			if f.Pkg != nil && fn.Pkg != nil && f.Pkg == fn.Pkg && f.Name() != "appendJSON" && f.Name() != "appendFields" && f.Name() != "appendFieldList" && len(f.Blocks) > 0 {
				otherFrontCalls++ // builds on other functions of the package: a structured member
			}
			if f.Name() == "appendJSON" || f.Name() == "appendFields" || f.Name() == "appendFieldList" {
				ec := encCall{callee: f.Name(), pos: c.Pos()}
				for _, a := range c.Call.Args[1:] {
					ec.args = append(ec.args, describeVal(a, params, 0))
				}
				calls = append(calls, ec)
			}
		}
	}
	return
}

// expandEnc: the value-encoder calls an Encoder method makes itself, in terms
// of the caller's argument descriptions (one level of inlining: a front end
// that re-implements a dispatching primitive such as AppendStringer agrees with
// one that calls it iff the sets of leaf calls are the same).
func expandEnc(encoders map[string]*ssa.Function, c encCall) []string {
	f := encoders[c.callee]
	if f == nil || len(f.Params) < 2 {
		return []string{c.String()}
	}
	params := map[ssa.Value]string{}
	for i, prm := range f.Params[2:] {
		if i < len(c.args) {
			params[prm] = c.args[i]
		}
	}
	inner, _ := valueEncCalls(f, params)
	if len(inner) == 0 {
		return []string{c.String()}
	}
	var out []string
	for _, ic := range inner {
		out = append(out, ic.String())
	}
	return out
}

func sameCallSets(encoders map[string]*ssa.Function, a, b []encCall) bool {
	set := func(cs []encCall, expand bool) string {
		m := map[string]bool{}
		for _, c := range cs {
			if !expand {
				m[c.String()] = true
				continue
			}
			for _, x := range expandEnc(encoders, c) {
				m[x] = true
			}
		}
		var ks []string
		for k := range m {
			ks = append(ks, k)
		}
		sort.Strings(ks)
		return strings.Join(ks, " | ")
	}
	if os.Getenv("GOVC_DEBUG") != "" {
		fmt.Fprintf(os.Stderr, "sameCallSets:\n  %s\n  %s\n", set(a, false), set(b, true))
	}
	// a spells out what the primitive called by b does itself
	return set(a, false) == set(b, true)
}

func valueParams(fn *ssa.Function, skip int) map[ssa.Value]string {
	m := map[ssa.Value]string{}
	for i, p := range fn.Params {
		if i < skip {
			continue
		}
		m[p] = fmt.Sprintf("v%d", i-skip)
	}
	return m
}

func typeStr(t types.Type) string {
	return types.TypeString(t, func(p *types.Package) string {
		if p == nil {
			return ""
		}
		return p.Name()
	})
}

func sweepAgreement(p *Prog, pc *PropConfig, tags string, r *checkResult) {
	s := &ownSweep{p: p, pc: pc, r: r, names: map[string]int{}, counts: map[string]*FuncReport{}, backendName: "ssa-contract-matching"}
	if tags != "" {
		s.suffix = "[" + tags + "]"
	}
	byRecv := map[string]map[string]*ssa.Function{"Event": {}, "Context": {}, "Array": {}}
	var fieldList *ssa.Function
	encoders := map[string]*ssa.Function{}
	for _, fn := range p.AllFns {
		if fn.Pkg == nil || len(fn.Blocks) == 0 {
			continue
		}
		if isEncoderMethod(fn) {
			encoders[fn.Name()] = fn
		}
		if fn.Pkg.Pkg.Path() != p.ModPath {
			continue
		}
		if fn.String() == p.ModPath+".appendFieldList" {
			fieldList = fn
		}
		if fn.Signature.Recv() == nil || !token.IsExported(fn.Name()) {
			continue
		}
		rn, ptr := recvNamed(fn)
		if (rn == "Event" && ptr) || (rn == "Context" && !ptr) || (rn == "Array" && ptr) {
			byRecv[rn][fn.Name()] = fn
		}
	}
	if fieldList == nil || len(byRecv["Event"]) < 40 {
		r.errors = append(r.errors, "agreement sweep: appendFieldList or the *Event method set not found")
		return
	}
	c := &Contract{Key: fieldList.String(), Kind: "func", Pkg: p.ModPath, Mode: ModeInt, Props: []string{pc.ID}, Loops: map[int]*LoopSpec{}, Flags: map[string]string{}, File: "(sweep agreement)"}
	s.fv = newFuncVC(p, fieldList, c)
	s.fv.Name = "zerolog.agreement" + s.suffix
	s.fv.activeProp = pc.ID
	if t := propReplay[pc.ID]; t != "" {
		s.fv.replayTemplate = t
	}
	// --- front: Event.M vs Context.M vs Array.M
	type ref struct {
		call   encCall
		method string
		ptype  string
	}
	byType := map[string][]ref{} // value parameter type -> Event methods with exactly that single value parameter
	var names []string
	for n := range byRecv["Event"] {
		names = append(names, n)
	}
	sort.Strings(names)
	nFront, nSimple := 0, 0
	var skipped []string
	for _, n := range names {
		ev := byRecv["Event"][n]
		if len(ev.Params) < 2 || ev.Params[1].Name() != "key" {
			continue
		}
		calls, other := valueEncCalls(ev, valueParams(ev, 2))
		if len(calls) != 1 || other > 0 {
			skipped = append(skipped, n)
			continue
		}
		nSimple++
		evCall := calls[0]
		if len(ev.Params) == 3 {
			byType[typeStr(ev.Params[2].Type())] = append(byType[typeStr(ev.Params[2].Type())], ref{evCall, n, typeStr(ev.Params[2].Type())})
		}
		s.oblige(ev, "agreement", "reference "+n, ev.Pos(), true, "Event."+n+" encodes its value with "+evCall.String())
		for _, other := range []struct {
			recv string
			skip int
		}{{"Context", 2}, {"Array", 1}} {
			fn := byRecv[other.recv][n]
			if fn == nil {
				continue
			}
			// same value parameter types?
			same := len(fn.Params)-other.skip == len(ev.Params)-2
			if same {
				for i := other.skip; i < len(fn.Params); i++ {
					if !types.Identical(fn.Params[i].Type(), ev.Params[i-other.skip+2].Type()) {
						same = false
					}
				}
			}
			if !same {
				continue // a different method that happens to share the name
			}
			nFront++
			oc, _ := valueEncCalls(fn, valueParams(fn, other.skip))
			ok := len(oc) == 1 && oc[0].String() == evCall.String()
			if !ok && len(oc) > 0 && sameCallSets(encoders, oc, []encCall{evCall}) {
				ok = true // a re-implementation of the primitive's own dispatch
			}
			why := fmt.Sprintf("%s.%s and Event.%s both encode the value with %s", other.recv, n, n, evCall.String())
			if !ok {
				var got []string
				for _, x := range oc {
					got = append(got, x.String())
				}
				why = fmt.Sprintf("%s.%s encodes the value with %s, Event.%s with %s: the same (type, value) gives different bytes through the two entry points", other.recv, n, strings.Join(got, " / "), n, evCall.String())
			}
			s.oblige(fn, "agreement", other.recv+"."+n, fn.Pos(), ok, why)
		}
	}
	// --- field: arms of the type switch in appendFieldList
	prefer := map[string]string{}
	for _, d := range p.CS.Effects {
		if d.Effect == "agreement" && d.Kind == "field" && len(d.Words) == 2 {
			prefer[d.Words[0]] = d.Words[1]
		}
	}
	type arm struct {
		t     types.Type
		calls []encCall
		ta    *ssa.TypeAssert
	}
	var arms []arm
	for _, b := range fieldList.Blocks {
		for _, in := range b.Instrs {
			ta, ok := in.(*ssa.TypeAssert)
			if !ok || !ta.CommaOk {
				continue
			}
			if _, isIface := ta.AssertedType.Underlying().(*types.Interface); isIface {
				continue
			}
			// the value of the arm
			var val ssa.Value
			for _, ref := range *ta.Referrers() {
				if ex, ok := ref.(*ssa.Extract); ok && ex.Index == 0 {
					val = ex
				}
			}
			if val == nil {
				continue
			}
			params := map[ssa.Value]string{val: "v0"}
			var calls []encCall
			for _, b2 := range fieldList.Blocks {
				for _, in2 := range b2.Instrs {
					c, ok := in2.(*ssa.Call)
					if !ok {
						continue
					}
					f := c.Call.StaticCallee()
					if f == nil || !isEncoderMethod(f) || structuralEnc[f.Name()] {
						continue
					}
					uses := false
					ec := encCall{callee: f.Name(), pos: c.Pos()}
					for _, a := range c.Call.Args[2:] {
						d := describeVal(a, params, 0)
						if strings.Contains(d, "v0") {
							uses = true
						}
						ec.args = append(ec.args, d)
					}
					if uses {
						calls = append(calls, ec)
					}
				}
			}
			arms = append(arms, arm{ta.AssertedType, calls, ta})
		}
	}
	nArms := 0
	armCall := map[string]encCall{}
	for _, a := range arms {
		if _, isPtr := a.t.(*types.Pointer); isPtr {
			continue
		}
		ts := typeStr(a.t)
		cands := byType[ts]
		if len(cands) == 0 || len(a.calls) != 1 {
			continue // error, LogObjectMarshaler, interface{}: structured arms, covered by their own contracts
		}
		var want *ref
		if len(cands) == 1 {
			want = &cands[0]
		} else {
			for i := range cands {
				if cands[i].method == prefer[ts] {
					want = &cands[i]
				}
			}
		}
		nArms++
		if want == nil {
			var ms []string
			for _, c := range cands {
				ms = append(ms, c.method)
			}
			s.oblige(fieldList, "agreement", "field "+ts, a.ta.Pos(), false, "several *Event methods take a "+ts+" ("+strings.Join(ms, ", ")+") and no `effect agreement field "+ts+" <Method>` line says which one Fields must agree with")
			continue
		}
		armCall[ts] = a.calls[0]
		ok := a.calls[0].String() == want.call.String()
		why := fmt.Sprintf("Fields arm `case %s` and Event.%s both encode the value with %s", ts, want.method, want.call.String())
		if !ok {
			why = fmt.Sprintf("Fields arm `case %s` encodes the value with %s, Event.%s with %s", ts, a.calls[0].String(), want.method, want.call.String())
		}
		s.oblige(fieldList, "agreement", "field "+ts, a.ta.Pos(), ok, why)
	}
	for _, a := range arms {
		pt, isPtr := a.t.(*types.Pointer)
		if !isPtr {
			continue
		}
		base, ok := armCall[typeStr(pt.Elem())]
		if !ok || len(a.calls) != 1 {
			continue
		}
		nArms++
		wantS := strings.ReplaceAll(base.String(), "v0", "*v0")
		ok2 := a.calls[0].String() == wantS
		why := fmt.Sprintf("Fields arm `case %s` encodes the dereferenced value with %s, as arm %s does", typeStr(a.t), wantS, typeStr(pt.Elem()))
		if !ok2 {
			why = fmt.Sprintf("Fields arm `case %s` encodes with %s, arm %s with %s", typeStr(a.t), a.calls[0].String(), typeStr(pt.Elem()), base.String())
		}
		s.oblige(fieldList, "agreement", "field "+typeStr(a.t), a.ta.Pos(), ok2, why)
	}
	// --- element: AppendTs vs AppendT
	nElem := 0
	var encNames []string
	for n := range encoders {
		encNames = append(encNames, n)
	}
	sort.Strings(encNames)
	leafCalls := func(fn *ssa.Function, elem func(ssa.Value) bool, params map[ssa.Value]string) []encCall {
		var out []encCall
		for _, b := range fn.Blocks {
			for _, in := range b.Instrs {
				c, ok := in.(*ssa.Call)
				if !ok {
					continue
				}
				if _, isB := c.Call.Value.(*ssa.Builtin); isB {
					continue
				}
				f := c.Call.StaticCallee()
				name := "dyn"
				args := c.Call.Args
				if f != nil {
					name = f.String()
					if isEncoderMethod(f) {
						name = "enc." + f.Name()
						args = args[1:]
					}
				} else if c.Call.IsInvoke() {
					name = "invoke " + c.Call.Method.Name()
					args = append([]ssa.Value{c.Call.Value}, args...)
				}
				uses := false
				ec := encCall{callee: name, pos: c.Pos()}
				for _, a := range args {
					if isByteSlice(a.Type()) {
						if _, isParam := params[a]; !isParam {
							ec.args = append(ec.args, "dst")
							continue
						}
					}
					d := describeVal(a, params, 0)
					if elem(a) || strings.Contains(d, "v0") {
						uses = true
					}
					ec.args = append(ec.args, d)
				}
				if uses {
					out = append(out, ec)
				}
			}
		}
		return out
	}
	for _, n := range encNames {
		var single string
		switch {
		case strings.HasPrefix(n, "AppendInts"), strings.HasPrefix(n, "AppendUints"), strings.HasPrefix(n, "AppendFloats"):
			single = strings.Replace(n, "s", "", 1)
			single = n[:len("Append")] + strings.Replace(n[len("Append"):], "s", "", 1)
		case n == "AppendStrings", n == "AppendBools", n == "AppendDurations", n == "AppendStringers":
			// AppendTimes is not compared: its integer formats go through helper functions with a divisor parameter
			single = strings.TrimSuffix(n, "s")
		default:
			continue
		}
		multi, one := encoders[n], encoders[single]
		if one == nil || len(multi.Params) < 3 || len(one.Params) < 3 {
			continue
		}
		// element values of the slice parameter: loads of IndexAddr on vals (or on a slice of it), range values
		vals := multi.Params[2]
		isElem := func(v ssa.Value) bool {
			for i := 0; i < 6; i++ {
				switch x := v.(type) {
				case *ssa.UnOp:
					if x.Op != token.MUL {
						return false
					}
					v = x.X
				case *ssa.IndexAddr:
					base := x.X
					if sl, ok := base.(*ssa.Slice); ok {
						base = sl.X
					}
					return base == ssa.Value(vals)
				case *ssa.Convert:
					v = x.X
				case *ssa.MakeInterface:
					v = x.X
				default:
					return false
				}
			}
			return false
		}
		// describe elements as v0, other parameters by their position after the slice
		mparams := map[ssa.Value]string{}
		for i, prm := range multi.Params[3:] {
			mparams[prm] = fmt.Sprintf("p%d", i)
		}
		for _, b := range multi.Blocks {
			for _, in := range b.Instrs {
				if v, ok := in.(ssa.Value); ok && isElem(v) {
					if _, isLoad := v.(*ssa.UnOp); isLoad {
						mparams[v] = "v0"
					}
				}
			}
		}
		oparams := map[ssa.Value]string{one.Params[2]: "v0"}
		for i, prm := range one.Params[3:] {
			oparams[prm] = fmt.Sprintf("p%d", i)
		}
		mc := leafCalls(multi, isElem, mparams)
		ocs := leafCalls(one, func(v ssa.Value) bool { return v == ssa.Value(one.Params[2]) }, oparams)
		selfArgs := []string{"dst", "v0"}
		for i := range one.Params[3:] {
			selfArgs = append(selfArgs, fmt.Sprintf("p%d", i))
		}
		self := encCall{callee: "enc." + single, args: selfArgs}.String()
		nElem++
		ok := len(mc) > 0
		var bad []string
		for _, c := range mc {
			match := c.String() == self
			for _, o := range ocs {
				if o.String() == c.String() {
					match = true
				}
			}
			if !match {
				ok = false
				bad = append(bad, c.String())
			}
		}
		var os []string
		for _, o := range ocs {
			os = append(os, o.String())
		}
		why := fmt.Sprintf("%s encodes every element by %s or by the call %s itself makes (%s)", n, self, single, strings.Join(os, " / "))
		if !ok {
			why = fmt.Sprintf("%s encodes an element with %s; %s makes %s", n, strings.Join(bad, " / "), single, strings.Join(os, " / "))
			if len(mc) == 0 {
				why = n + ": no element-encoding call found"
			}
		}
		s.oblige(multi, "agreement", "element "+n, multi.Pos(), ok, why)
	}
	// --- settings are read at each call: the encoder packages' JSONMarshalFunc must forward to the
	// process-wide InterfaceMarshalFunc when it is called, not capture its value at init time
	nBind := 0
	for _, fn := range p.AllFns {
		if fn.Pkg == nil || fn.Pkg.Pkg.Path() != p.ModPath || !isInitFn(fn) {
			continue
		}
		for _, b := range fn.Blocks {
			for _, in := range b.Instrs {
				st, ok := in.(*ssa.Store)
				if !ok {
					continue
				}
				g, ok := st.Addr.(*ssa.Global)
				if !ok || g.Name() != "JSONMarshalFunc" {
					continue
				}
				nBind++
				late := false
				var target *ssa.Function
				switch v := st.Val.(type) {
				case *ssa.Function:
					target = v
				case *ssa.MakeClosure:
					target, _ = v.Fn.(*ssa.Function)
				}
				if target != nil {
					for _, bb := range target.Blocks {
						for _, ii := range bb.Instrs {
							if c, ok := ii.(*ssa.Call); ok {
								if u, ok := c.Call.Value.(*ssa.UnOp); ok && u.Op == token.MUL {
									if gg, ok := u.X.(*ssa.Global); ok && gg.Name() == "InterfaceMarshalFunc" {
										late = true
									}
								}
							}
						}
					}
				}
				why := g.String() + " forwards to InterfaceMarshalFunc, loaded when it is called"
				if !late {
					why = g.String() + " is bound to the value InterfaceMarshalFunc has at init time: a marshaler installed later (a setting the property says is read at each call) is ignored by this build"
				}
				s.oblige(fn, "agreement", "late binding of "+g.Pkg.Pkg.Name()+".JSONMarshalFunc", in.Pos(), late, why)
			}
		}
	}
	if nBind == 0 {
		r.errors = append(r.errors, "agreement sweep: no init store to JSONMarshalFunc found")
	}
	// --- alphabet: RawCBOR is rendered with one base64 alphabet on both sides (JSON encoder, CBOR decoder)
	used := map[string][]string{}
	for _, fn := range p.AllFns {
		if !p.inModule(fn) || len(fn.Blocks) == 0 {
			continue
		}
		for _, b := range fn.Blocks {
			for _, in := range b.Instrs {
				if u, ok := in.(*ssa.UnOp); ok && u.Op == token.MUL {
					if g, ok := u.X.(*ssa.Global); ok && g.Pkg != nil && g.Pkg.Pkg.Path() == "encoding/base64" {
						used[g.Name()] = append(used[g.Name()], shortFn(fn))
					}
				}
			}
		}
	}
	var alph []string
	for k := range used {
		alph = append(alph, k)
	}
	sort.Strings(alph)
	okAlph := len(alph) == 1 && alph[0] == "StdEncoding"
	whyAlph := fmt.Sprintf("every base64 rendering in the module (JSON encoder and CBOR decoder of RawCBOR: %s) uses base64.StdEncoding", strings.Join(used["StdEncoding"], ", "))
	if !okAlph {
		var parts []string
		for _, k := range alph {
			parts = append(parts, k+" in "+strings.Join(used[k], ", "))
		}
		whyAlph = "RawCBOR must be rendered with base64.StdEncoding by the JSON encoder and by the CBOR decoder alike; found: " + strings.Join(parts, "; ")
	}
	s.oblige(fieldList, "agreement", "base64 alphabet", fieldList.Pos(), okAlph, whyAlph)
	// --- network prefix (tag 261): the binary build writes the address bytes and the mask length of the
	// value exactly as given; the JSON build prints that same value with net.IPNet.String. Any
	// normalisation on one side only (To4, masking, a different mask width) makes the two disagree for
	// the non-canonical forms.
	if tags == "binary_log" {
		var pfxFn *ssa.Function
		for _, fn := range p.AllFns {
			if fn.String() == "("+p.ModPath+"/internal/cbor.Encoder).AppendIPPrefix" {
				pfxFn = fn
			}
		}
		if pfxFn == nil {
			r.errors = append(r.errors, "agreement sweep: cbor Encoder.AppendIPPrefix not found")
		} else {
			var got []string
			for _, b := range pfxFn.Blocks {
				for _, in := range b.Instrs {
					if cl, ok := in.(*ssa.Call); ok {
						if cal := cl.Call.StaticCallee(); cal != nil && isEncoderMethod(cal) && len(cl.Call.Args) >= 3 {
							got = append(got, cal.Name()+"("+describeVal(cl.Call.Args[2], map[ssa.Value]string{}, 0)+")")
						}
					}
				}
			}
			want := []string{"AppendBytes(*param:pfx.IP)", "AppendUint8(conv[uint8](extract0((net.IPMask).Size(*param:pfx.Mask))))"}
			ok := strings.Join(got, "; ") == strings.Join(want, "; ")
			why := "AppendIPPrefix writes the address bytes and the mask length of the value as given: " + strings.Join(got, "; ")
			if !ok {
				why = "AppendIPPrefix must write pfx.IP and the ones-count of pfx.Mask as given (the JSON build prints the same value with net.IPNet.String); it writes " + strings.Join(got, "; ")
			}
			s.oblige(pfxFn, "agreement", "network prefix payload", pfxFn.Pos(), ok, why)
		}
	}
	r.notes = append(r.notes, fmt.Sprintf("agreement sweep [%s]: %d *Event methods with a single value-encoder call; %d Context/Array counterparts compared; %d Fields arms; %d slice encoders; structured methods left to their own contracts: %s", buildName(tags), nSimple, nFront, nArms, nElem, strings.Join(skipped, ", ")))
	if nFront < 40 || nArms < 30 || nElem < 10 {
		r.errors = append(r.errors, fmt.Sprintf("agreement sweep compared only %d front-end pairs, %d Fields arms, %d slice encoders", nFront, nArms, nElem))
	}
	var frs []string
	for n := range s.counts {
		frs = append(frs, n)
	}
	sort.Strings(frs)
	for _, n := range frs {
		r.reports = append(r.reports, *s.counts[n])
	}
}
