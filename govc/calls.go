package main

import (
	"sort"
	"fmt"
	"go/token"
	"go/types"
	"strings"

	"golang.org/x/tools/go/ssa"
)

func (fv *FuncVC) setResult(v ssa.Value, res []Val) {
	if v == nil {
		return
	}
	switch len(res) {
	case 0:
		fv.vals[v] = Val{}
	case 1:
		if _, isTuple := v.Type().(*types.Tuple); isTuple {
			fv.vals[v] = Val{Tuple: res}
		} else {
			fv.vals[v] = res[0]
		}
	default:
		fv.vals[v] = Val{Tuple: res}
	}
}

func resultTypes(sig *types.Signature) []types.Type {
	var ts []types.Type
	for i := 0; i < sig.Results().Len(); i++ {
		ts = append(ts, sig.Results().At(i).Type())
	}
	return ts
}

func (fv *FuncVC) freshResults(prefix string, ts []types.Type) []Val {
	var res []Val
	for i, t := range ts {
		r := fv.freshWF(fmt.Sprintf("%s_r%d", prefix, i), t)
		r.Go = t
		res = append(res, Val{T: r})
	}
	return res
}

func shortFn(f *ssa.Function) string {
	if f.Pkg != nil {
		return f.RelString(f.Pkg.Pkg)
	}
	return f.Name()
}

func (fv *FuncVC) call(v ssa.Value, cc *ssa.CallCommon, instr ssa.Instruction) {
	fv.callN++
	fv.inCall = true
	fv.curCallHasFuncArg = false
	if _, isClosure := cc.Value.(*ssa.MakeClosure); isClosure || (!cc.IsInvoke() && cc.StaticCallee() == nil) {
		fv.curCallHasFuncArg = true
	}
	for _, a := range cc.Args {
		if _, isSig := a.Type().Underlying().(*types.Signature); isSig {
			fv.curCallHasFuncArg = true
		}
	}
	defer func() { fv.inCall = false }()
	pos := instr.Pos()
	if b, ok := cc.Value.(*ssa.Builtin); ok {
		fv.builtin(v, b, cc, pos)
		return
	}
	sig := cc.Signature()
	rts := resultTypes(sig)
	// arguments (receiver first for invokes)
	var args []Val
	var ats []types.Type
	if cc.IsInvoke() {
		r := fv.operand(cc.Value)
		args = append(args, r)
		ats = append(ats, cc.Value.Type())
	}
	for _, a := range cc.Args {
		args = append(args, fv.operand(a))
		ats = append(ats, a.Type())
	}
	tracked := fv.P.trackedName(cc)
	var res []Val
	// a pointer to a struct that lives inside another object (embedded struct, local): the callee
	// works on a temporary object holding a copy, which is copied back afterwards (sound as long
	// as the callee does not retain the pointer)
	type copyBack struct {
		lv  *LValue
		ref string
		t   types.Type
	}
	var backs []copyBack
	if f := cc.StaticCallee(); f != nil && fv.P.inModule(f) {
		for i := range args {
			if args[i].LV == nil {
				continue
			}
			pt, ok := ats[i].Underlying().(*types.Pointer)
			if !ok {
				continue
			}
			if _, isStruct := pt.Elem().Underlying().(*types.Struct); !isStruct || opaqueStruct(pt.Elem()) {
				continue
			}
			if args[i].LV.Kind == LAlloc && len(args[i].LV.Path) == 0 && false {
				continue
			}
			cur := fv.load(fv.cur, args[i].LV)
			r := fv.newRef("tmpobj", ats[i])
			fv.storeStructRef(fv.cur, r.S, pt.Elem(), cur)
			backs = append(backs, copyBack{args[i].LV, r.S, pt.Elem()})
			args[i] = Val{T: r}
		}
	}
	defer func() {
		for _, b := range backs {
			fv.store(fv.cur, b.lv, fv.loadStructRef(fv.cur, b.ref, b.t))
		}
	}()
	if fv.inert && !fv.inertAllowed(cc) {
		what := "dynamic call"
		if cc.IsInvoke() {
			what = "invoke " + ifaceKey(cc)
		} else if f := cc.StaticCallee(); f != nil {
			what = "call " + shortFn(f)
		} else {
			what = "call " + dynKey(cc)
		}
		fv.oblige("inert", sanitize(what), nil, pos, "false", "on a nil event nothing but the event's own methods may be called: "+what)
	}
	if cc.IsInvoke() {
		// a call on the object held in a guarded field happens with the mutex held
		if g := fv.guardSpec(); g != nil && len(fv.Fn.Params) > 0 {
			if ld, ok := rootOf(cc.Value).(*ssa.UnOp); ok && ld.Op == token.MUL {
				if fa, ok := ld.X.(*ssa.FieldAddr); ok && fa.X == ssa.Value(fv.Fn.Params[0]) {
					if pt, ok := fa.X.Type().Underlying().(*types.Pointer); ok {
						if st, ok := pt.Elem().Underlying().(*types.Struct); ok && (g.fields[st.Field(fa.Field).Name()] || g.calls[st.Field(fa.Field).Name()]) {
							h := fv.heapTerm(fv.cur, "held."+heapKey(pt.Elem(), g.mu), SBool)
							recv := fv.operand(fa.X)
							fv.oblige("heldcall", cc.Method.Name(), nil, pos, app("select", h.S, recv.T.S), "the call "+st.Field(fa.Field).Name()+"."+cc.Method.Name()+" happens while "+g.mu+" is held: calls into the wrapped object never overlap")
						}
					}
				}
			}
		}
	}
	switch {
	case cc.IsInvoke():
		key := ifaceKey(cc)
		if fv.C != nil && fv.C.Flags["nilpanics"] != "" {
			fv.assume(smtNot(app("=", app("Iface_tag", args[0].T.S), "0")))
		} else {
			fv.oblige("nil", "invoke "+cc.Method.Name(), nil, pos, smtNot(app("=", app("Iface_tag", args[0].T.S), "0")), "")
		}
		if c := fv.P.ifaceContract(cc); c != nil {
			res = fv.applyContract(c, nil, args, ats, rts, pos, key, tracked)
		} else {
			res = fv.opaqueCall(key, args, ats, rts, tracked, pos)
		}
	case cc.StaticCallee() != nil:
		f := cc.StaticCallee()
		if fv.native(v, f, cc, args, ats, rts, pos) {
			return
		}
		fv.closureBindings = nil
		if mc, ok := cc.Value.(*ssa.MakeClosure); ok {
			for _, b := range mc.Bindings {
				fv.closureBindings = append(fv.closureBindings, fv.operand(b))
			}
		}
		if c := fv.P.CS.ByKey[f.String()]; c != nil {
			res = fv.applyContract(c, f, args, ats, rts, pos, shortFn(f), tracked)
		} else {
			res = fv.uncontractedCall(f, cc, args, ats, rts, tracked, pos)
		}
	default:
		key := dynKey(cc)
		fn := fv.term(cc.Value)
		fv.oblige("nil", "call "+key, nil, pos, smtNot(app("=", fn.S, "0")), "")
		if c := fv.P.CS.ByKey[key]; c != nil {
			res = fv.applyContract(c, nil, args, ats, rts, pos, key, tracked)
		} else {
			res = fv.opaqueCall(key, args, ats, rts, tracked, pos)
		}
	}
	if fv.inert && fv.inertOwnMethod(cc) {
		for _, r := range res {
			switch r.T.Sort.Kind {
			case KRef:
				fv.assume(app("=", r.T.S, "0"))
			case KBool:
				fv.assume(smtNot(r.T.S))
			}
		}
	}
	fv.setResult(v, res)
}

// ---------------------------------------------------------------------------
// Call logs

func (fv *FuncVC) logAppend(key string, args []Val, ats []types.Type) string {
	st := fv.cur
	n := fv.ghostTerm(st, "log."+key+".n", SMath)
	for j, a := range args {
		t := fv.asTerm(a, ats[j])
		hk := fmt.Sprintf("log.%s.a%d", key, j)
		h := fv.heapTerm(st, hk, t.Sort)
		st.heap[hk] = Term{S: app("store", h.S, n.S, t.S), Sort: t.Sort}
	}
	idx := n.S
	st.ghost["log."+key+".n"] = Term{S: app("+", n.S, "1"), Sort: SMath}
	// global order of logged calls: callseq(K, i)
	seq := fv.ghostTerm(st, "seq", SMath)
	sk := "log." + key + ".s"
	sh := fv.heapTerm(st, sk, SMath)
	st.heap[sk] = Term{S: app("store", sh.S, idx, seq.S), Sort: SMath}
	st.ghost["seq"] = Term{S: app("+", seq.S, "1"), Sort: SMath}
	return idx
}

func (fv *FuncVC) logResults(key string, idx string, res []Val) {
	st := fv.cur
	for j, r := range res {
		hk := fmt.Sprintf("log.%s.r%d", key, j)
		h := fv.heapTerm(st, hk, r.T.Sort)
		st.heap[hk] = Term{S: app("store", h.S, idx, r.T.S), Sort: r.T.Sort}
	}
}

// ---------------------------------------------------------------------------
// Calls without a contract

func (fv *FuncVC) applyEffect(e *Effect, tag string) {
	ms := &modSet{cells: map[*ssa.Alloc]bool{}, heap: map[string]bool{}, globals: map[*ssa.Global]bool{}, ghosts: map[string]bool{}, slices: map[ssa.Value]bool{}, anyCall: true}
	for k := range e.Heap {
		ms.heap[k] = true
	}
	for g := range e.Globals {
		ms.globals[g] = true
	}
	ms.allHeap = e.Opaque
	for _, r := range e.ArgRoots {
		switch r.kind {
		case rootAlloc:
			ms.cells[r.alloc] = true
		case rootGlobal:
			ms.globals[r.global] = true
		case rootHeap:
			for _, k := range r.keys {
				ms.heap[k] = true
			}
		case rootSlice:
			ms.slices[r.slice] = true
		}
	}
	for l := range e.Logs {
		ms.ghosts["log."+l+".n"] = true
		ms.ghosts["logarrays."+l] = true
	}
	fv.havoc(ms, tag)
}

func (fv *FuncVC) opaqueCall(key string, args []Val, ats []types.Type, rts []types.Type, tracked string, pos token.Pos) []Val {
	tag := fmt.Sprintf("call%d", fv.callN)
	fv.bindingEscape = false
	synced := fv.syncCellsOut(args)
	defer fv.syncCellsIn(synced)
	idx := ""
	if tracked != "" {
		idx = fv.logAppend(tracked, args, ats)
	}
	e := newEffect()
	fv.P.opaqueArgEffect(e, ats)
	fv.applyEffect(e, tag)
	res := fv.freshResults(sanitize(key)+"_"+tag, rts)
	if tracked != "" {
		fv.logResults(tracked, idx, res)
	}
	fv.unmodelled["dynamic call "+key+": result arbitrary; may modify only module structs passed by pointer"] = true
	return res
}

func (fv *FuncVC) uncontractedCall(f *ssa.Function, cc *ssa.CallCommon, args []Val, ats []types.Type, rts []types.Type, tracked string, pos token.Pos) []Val {
	tag := fmt.Sprintf("call%d", fv.callN)
	idx := ""
	if tracked != "" {
		idx = fv.logAppend(tracked, args, ats)
	}
	e := fv.P.callEffect(cc)
	if tracked != "" {
		// the call itself was logged above; callees' logs are havoc'd
		delete(e.Logs, tracked)
	}
	fv.applyEffect(e, tag)
	res := fv.freshResults(sanitize(f.Name())+"_"+tag, rts)
	if tracked != "" {
		fv.logResults(tracked, idx, res)
	}
	if fv.P.inModule(f) {
		if fv.helpers == nil {
			fv.helpers = map[string]bool{}
		}
		fv.helpers[shortFn(f)] = true
		fv.unmodelled["call to "+shortFn(f)+" without contract: result arbitrary, effects over-approximated from its body"] = true
	} else {
		fv.unmodelled["library call "+f.String()+" without assumed contract: result arbitrary"] = true
	}
	return res
}

// ---------------------------------------------------------------------------
// Calls with a contract

func (fv *FuncVC) bindParams(env *Env, c *Contract, callee *ssa.Function, args []Val, ats []types.Type) {
	names := c.Params
	if len(names) == 0 && callee != nil {
		for _, p := range callee.Params {
			names = append(names, p.Name())
		}
	}
	if len(names) != len(args) {
		fv.unsupported("contract %s (%s:%d) has %d parameters, call passes %d", c.Key, c.File, c.Line, len(names), len(args))
	}
	for i, n := range names {
		a := args[i]
		a.T = fv.asTerm(a, ats[i])
		if a.T.Go == nil {
			a.T.Go = ats[i]
		}
		if callee != nil && i < len(callee.Params) {
			a.T.Go = callee.Params[i].Type()
		}
		a.LV = nil
		env.names[n] = a
	}
}

// syncCellsOut / syncCellsIn: local variables whose address is handed to a callee (closure
// bindings, pointer arguments) live, for the duration of the call, in the heap cell the callee's
// contract talks about (deref(p)); afterwards the local takes the cell's value back.
func (fv *FuncVC) cellLV(a *ssa.Alloc, addr string) *LValue {
	elem := a.Type().(*types.Pointer).Elem()
	s := fv.sortOf(elem)
	return &LValue{Kind: LCell, Ref: addr, HKey: "cell." + sortTag(s, fv.Mode), HSort: s, Type: elem}
}

func (fv *FuncVC) syncCellsOut(vals []Val) map[*ssa.Alloc]string {
	out := map[*ssa.Alloc]string{}
	for _, v := range vals {
		if v.LV == nil || v.LV.Kind != LAlloc || len(v.LV.Path) != 0 {
			continue
		}
		a := v.LV.Alloc
		elem := a.Type().(*types.Pointer).Elem()
		if _, isStruct := elem.Underlying().(*types.Struct); isStruct && !opaqueStruct(elem) {
			continue
		}
		addr := fv.asTerm(v, a.Type()).S
		fv.store(fv.cur, fv.cellLV(a, addr), fv.lvRoot(fv.cur, v.LV))
		out[a] = addr
	}
	return out
}

func (fv *FuncVC) syncCellsIn(m map[*ssa.Alloc]string) {
	for a, addr := range m {
		fv.cur.cells[a] = fv.load(fv.cur, fv.cellLV(a, addr))
	}
}

func (fv *FuncVC) applyContract(c *Contract, callee *ssa.Function, args []Val, ats []types.Type, rts []types.Type, pos token.Pos, label string, tracked string) []Val {
	tag := fmt.Sprintf("call%d", fv.callN)
	fv.bindingEscape = true
	synced := fv.syncCellsOut(append(append([]Val{}, args...), fv.closureBindings...))
	fv.bindingEscape = false
	defer fv.syncCellsIn(synced)
	if c.Trusted {
		fv.trustedUse[c.Key] = true
	}
	pre := fv.cur.clone()
	env := fv.newEnv(fv.cur, pre)
	env.pkgOverride = c.Pkg
	fv.bindParams(env, c, callee, args, ats)
	if callee != nil && len(fv.closureBindings) == len(callee.FreeVars) {
		for i, fvar := range callee.FreeVars {
			b := fv.closureBindings[i]
			b.T = fv.asTerm(b, fvar.Type())
			b.T.Go = fvar.Type()
			b.LV = nil
			env.names[fvar.Name()] = b
		}
	}
	for _, r := range c.Requires {
		t := env.evalBool(r.E, r)
		fv.oblige("pre", fmt.Sprintf("%s.%d", label, r.Idx), r.Props, pos, t, r.Src)
		fv.assume(t)
	}
	idx := ""
	if tracked != "" {
		idx = fv.logAppend(tracked, args, ats)
	}
	// effects
	if c.HasMod {
		fv.havocModifies(c, env, callee, tag)
	} else if callee != nil && fv.P.Effects[callee] != nil {
		e := newEffect()
		e.merge(fv.P.Effects[callee])
		if tracked != "" {
			delete(e.Logs, tracked)
		}
		fv.applyEffect(e, tag)
	} else if callee == nil {
		e := newEffect()
		fv.P.opaqueArgEffect(e, ats)
		fv.applyEffect(e, tag)
	}
	if c.HasMod && callee != nil && fv.P.Effects[callee] != nil {
		// logs follow the call graph even with an explicit modifies clause
		e := newEffect()
		for l := range fv.P.Effects[callee].Logs {
			if l != tracked {
				e.Logs[l] = true
			}
		}
		if len(e.Logs) > 0 {
			fv.applyEffect(e, tag+"l")
		}
	}
	res := fv.freshResults(sanitize(label)+"_"+tag, rts)
	if tracked != "" {
		fv.logResults(tracked, idx, res)
	}
	env.st = fv.cur
	env.assuming = true
	env.bindResultNames(c, callee, res)
	for _, e := range c.Ensures {
		if mentionsIdent(e.E, "cov") {
			continue // the callee's private coverage ghost means nothing to the caller
		}
		t := env.evalBool(e.E, e)
		fv.assume(t)
	}
	return res
}

// havocModifies applies an explicit modifies clause with per-object
// precision for `param.field` entries.
func (fv *FuncVC) havocModifies(c *Contract, env *Env, callee *ssa.Function, tag string) {
	st := fv.cur
	e := newEffect()
	for _, m := range c.Modifies {
		i := strings.Index(m, ".")
		if i > 0 && strings.HasSuffix(m, ".content@ghost") {
			// ghost content of one bytes.Buffer
			if pv, ok := env.names[m[:i]]; ok && pv.T.Sort.Kind == KRef {
				fv.ensureSort(SBytes)
				h := fv.heapTerm(st, "ghost.content", SBytes)
				nv := fv.fresh("bufcontent_"+tag, SBytes)
				fv.assert(fv.wf(nv, nil))
				st.heap["ghost.content"] = Term{S: app("store", h.S, pv.T.S, nv.S), Sort: SBytes}
				continue
			}
		}
		if i > 0 && !strings.HasPrefix(m, "global ") && !strings.HasPrefix(m, "ghost ") {
			head, field := m[:i], m[i+1:]
			if pv, ok := env.names[head]; ok && pv.T.Sort.Kind == KRef && pv.T.Go != nil {
				if pt, ok := pv.T.Go.Underlying().(*types.Pointer); ok {
					if stt, ok := pt.Elem().Underlying().(*types.Struct); ok {
						for fi := 0; fi < stt.NumFields(); fi++ {
							if stt.Field(fi).Name() == field {
								k := heapKey(pt.Elem(), field)
								s := fv.sortOf(stt.Field(fi).Type())
								h := fv.heapTerm(st, k, s)
								nv := fv.freshWF("mod_"+field+"_"+tag, stt.Field(fi).Type())
								st.heap[k] = Term{S: app("store", h.S, pv.T.S, nv.S), Sort: s}
							}
						}
						continue
					}
				}
			}
		}
		one := &Contract{Modifies: []string{m}, Pkg: c.Pkg, Params: c.Params}
		fv.P.modifiesEffect(e, one, callee)
	}
	fv.applyEffect(e, tag)
}

// ---------------------------------------------------------------------------
// Builtins

func (fv *FuncVC) builtin(v ssa.Value, b *ssa.Builtin, cc *ssa.CallCommon, pos token.Pos) {
	switch b.Name() {
	case "len", "cap":
		x := fv.term(cc.Args[0])
		var r string
		switch x.Sort.Kind {
		case KBytes, KSlice:
			if b.Name() == "len" {
				r = fv.lenOf(x)
			} else {
				r = fv.capOf(x)
			}
		case KArray:
			r = fv.ilit(x.Sort.N)
		default:
			t := fv.freshWF("len", types.Typ[types.Int])
			fv.assert(fv.ile(fv.ilit(0), t.S))
			r = t.S
		}
		fv.vals[v] = Val{T: Term{S: r, Sort: SInt, Go: types.Typ[types.Int]}}
	case "append":
		fv.appendBuiltin(v, cc, pos)
	case "copy":
		fv.copyBuiltin(v, cc, pos)
	case "ssa:wrapnilchk":
		fv.vals[v] = fv.operand(cc.Args[0])
	case "print", "println", "delete", "clear", "close":
	case "recover":
		t := fv.freshWF("recovered", v.Type())
		t.Go = v.Type()
		if fv.C != nil && fv.C.Flags["errorpanic"] != "" {
			// every explicit panic of the swept functions carries an error (obligation errorpanic),
			// and run-time panics are runtime.Error values, which are errors too
			fv.declareFun("impl_error", []string{"Int"}, "Bool")
			fv.assume(smtOr(app("=", app("Iface_tag", t.S), "0"), app("impl_error", app("Iface_tag", t.S))))
			fv.trustedUse["recover() in the decoder yields nil or an error value (explicit panics carry errors: checked; panics raised by the caller's io.Writer are outside the statement)"] = true
		}
		fv.vals[v] = Val{T: t}
	case "min", "max":
		x, y := fv.term(cc.Args[0]), fv.term(cc.Args[1])
		if len(cc.Args) != 2 || x.Sort.Kind != KInt {
			fv.unsupported("builtin %s", b.Name())
		}
		c := fv.intCmp(token.LSS, x, y)
		if b.Name() == "max" {
			c = fv.intCmp(token.GTR, x, y)
		}
		fv.vals[v] = Val{T: Term{S: fmt.Sprintf("(ite %s %s %s)", c, x.S, y.S), Sort: x.Sort, Go: v.Type()}}
	default:
		fv.unsupported("builtin %s", b.Name())
	}
}

// constLenOf: the statically known length of a slice value built from a
// fixed-size array (variadic literal arguments) or a constant string.
func constLenOf(v ssa.Value) (int64, bool) {
	switch v := v.(type) {
	case *ssa.Slice:
		if v.Low != nil || v.High != nil {
			return 0, false
		}
		if pt, ok := v.X.Type().Underlying().(*types.Pointer); ok {
			if at, ok := pt.Elem().Underlying().(*types.Array); ok {
				return at.Len(), true
			}
		}
	case *ssa.Const:
		if v.Value != nil {
			if b, ok := v.Type().Underlying().(*types.Basic); ok && b.Info()&types.IsString != 0 {
				return int64(len(constantString(v))), true
			}
		}
	}
	return 0, false
}

func (fv *FuncVC) appendBuiltin(v ssa.Value, cc *ssa.CallCommon, pos token.Pos) {
	d := fv.term(cc.Args[0])
	x := fv.term(cc.Args[1])
	rt := v.Type()
	dt := fv.sliceDT(d.Sort)
	newLen := fv.iadd(fv.lenOf(d), fv.lenOf(x))
	r := fv.fresh("app", d.Sort)
	r.Go = rt
	// identity: same backing array when it fits, fresh otherwise
	a := fv.ghostTerm(fv.cur, "alloc", SMath)
	nb := fv.fresh("appbase", SMath)
	fv.assert(app("=", nb.S, app("+", a.S, "1")))
	fv.cur.ghost["alloc"] = nb
	fits := fv.ile(newLen, fv.capOf(d))
	fv.assert(smtAnd(
		app("=", fv.lenOf(r), newLen),
		app("=", fv.offOf(r), fv.offOf(d)),
		fmt.Sprintf("(ite %s (and (= %s %s) (= %s %s)) (and (= %s %s) %s))", fits, fv.baseOf(r), fv.baseOf(d), fv.capOf(r), fv.capOf(d), fv.baseOf(r), nb.S, fv.ile(newLen, fv.capOf(r)))))
	if n, ok := constLenOf(cc.Args[1]); ok && n <= 64 {
		arr := fv.arrOf(d)
		for i := int64(0); i < n; i++ {
			arr = app("store", arr, fv.iadd(fv.offOf(d), fv.iadd(fv.lenOf(d), fv.ilit(i))), fv.elemAt(x, fv.ilit(i)))
		}
		fv.assert(app("=", fv.arrOf(r), arr))
	} else {
		ks := idxSort(fv.Mode)
		z := fv.ilit(0)
		_ = ks
		fv.assert(fv.forallCopy(r, z, d, z, fv.lenOf(d)))
		fv.assert(fv.forallCopy(r, fv.lenOf(d), x, z, fv.lenOf(x)))
	}
	fv.assert(fv.pfx(r, d))
	if sameSort(r.Sort, x.Sort) {
		fv.assert(fv.sfx(r, fv.lenOf(d), x))
	}
	if d.Sort.Kind == KBytes {
		fv.ghostAppend(r, d, x, cc.Args[1], pos)
	}
	fv.siteClauses(v, d, x, r, pos)
	_ = dt
	fv.vals[v] = Val{T: r}
}

func (fv *FuncVC) copyBuiltin(v ssa.Value, cc *ssa.CallCommon, pos token.Pos) {
	d := fv.term(cc.Args[0])
	x := fv.term(cc.Args[1])
	n := fv.fresh("copyn", SInt)
	n.Go = types.Typ[types.Int]
	c := fv.ilt(fv.lenOf(d), fv.lenOf(x))
	fv.assert(app("=", n.S, fmt.Sprintf("(ite %s %s %s)", c, fv.lenOf(d), fv.lenOf(x))))
	// in-place update of d
	nd := fv.fresh("copied", d.Sort)
	nd.Go = d.Go
	ks := idxSort(fv.Mode)
	z := fv.ilit(0)
	fv.assert(smtAnd(app("=", fv.lenOf(nd), fv.lenOf(d)), app("=", fv.offOf(nd), fv.offOf(d)), app("=", fv.capOf(nd), fv.capOf(d)), app("=", fv.baseOf(nd), fv.baseOf(d)),
		fv.forallCopy(nd, z, x, z, n.S),
		fv.forallCopy(nd, n.S, d, n.S, fv.isub(fv.lenOf(d), n.S))))
	_ = ks
	if d.Sort.Kind == KBytes && x.Sort.Kind == KBytes {
		// a complete overwrite gives the destination the source's ghosts
		full := smtAnd(app("=", fv.lenOf(d), fv.lenOf(x)))
		for _, g := range []string{"Bytes_g1", "Bytes_g2", "Bytes_g3"} {
			fv.assert(smtImp(full, app("=", app(g, nd.S), app(g, x.S))))
		}
	}
	fv.cur.slices[cc.Args[0]] = nd
	// the destination was read from a variable: that variable sees the new content too
	if u, ok := cc.Args[0].(*ssa.UnOp); ok && u.Op == token.MUL {
		if a, ok := fv.vals[u.X]; ok && a.LV != nil {
			fv.store(fv.cur, a.LV, nd)
		}
	}
	if v != nil {
		fv.vals[v] = Val{T: n}
	}
}

// ---------------------------------------------------------------------------
// Defers

func (fv *FuncVC) runDefers() {
	for i := len(fv.defers) - 1; i >= 0; i-- {
		d := fv.defers[i]
		if fv.loopOf(d.instr.Block()) {
			fv.unsupported("defer inside a loop")
		}
		st0 := fv.cur.clone()
		saveReach := fv.curReach
		fv.curReach = smtAnd(saveReach, d.guard)
		fv.call(nil, d.call, d.instr)
		st1 := fv.cur
		fv.curReach = saveReach
		if d.guard == "true" || d.guard == saveReach {
			fv.cur = st1
		} else {
			fv.cur = fv.mergeStates([]*State{st1, st0}, []string{d.guard, smtNot(d.guard)}, fmt.Sprintf("defer%d", i))
		}
	}
}

func (fv *FuncVC) loopOf(b *ssa.BasicBlock) bool {
	for _, body := range fv.loopBody {
		for _, x := range body {
			if x == b {
				return true
			}
		}
	}
	return false
}

// inertAllowed: calls a method may make on a nil event.
func (fv *FuncVC) inertAllowed(cc *ssa.CallCommon) bool {
	f := cc.StaticCallee()
	if f == nil || cc.IsInvoke() {
		return false
	}
	if f.String() == "context.Background" {
		return true
	}
	if fv.P.inModule(f) && poolReleaseOnly(f) {
		// handing a consumed argument back to its pool (putEvent, putArray): no hook, callback,
		// marshaler or writer can run, and the call is checked against the function's precondition
		return true
	}
	return fv.inertOwnMethod(cc)
}

// poolReleaseOnly: the function makes no dynamic call and no static call other
// than (*sync.Pool).Put, and cannot panic explicitly.
func poolReleaseOnly(f *ssa.Function) bool {
	if len(f.Blocks) == 0 {
		return false
	}
	puts := 0
	for _, b := range f.Blocks {
		for _, in := range b.Instrs {
			switch x := in.(type) {
			case *ssa.Panic, *ssa.Go, *ssa.Defer:
				return false
			case *ssa.Call:
				if _, isB := x.Call.Value.(*ssa.Builtin); isB {
					continue
				}
				g := x.Call.StaticCallee()
				if g == nil || g.String() != "(*sync.Pool).Put" {
					return false
				}
				puts++
			}
		}
	}
	return puts > 0
}

// inertOwnMethod: a call to another guarded method of the same nil receiver;
// that method is under the same sweep, so its nil-receiver behaviour (inert,
// nil/false result) may be assumed here.
func (fv *FuncVC) inertOwnMethod(cc *ssa.CallCommon) bool {
	f := cc.StaticCallee()
	if f == nil || cc.IsInvoke() || f.Signature.Recv() == nil || len(cc.Args) == 0 {
		return false
	}
	if cc.Args[0] != ssa.Value(fv.Fn.Params[0]) || !types.Identical(f.Signature.Recv().Type(), fv.Fn.Signature.Recv().Type()) {
		return false
	}
	return !nilguardInternal[f.Name()]
}


// siteClauses: assertions and coverage updates attached to the N-th append of
// the function (`site append N: ...`). Names: parameters, the loop-carried
// variables of the enclosing loops at their current values, `chunk` (what is
// appended), `target` (the slice appended to), `appended` (the result), and the
// ghost counter `cov` (input positions accounted for so far; 0 on entry).
func (fv *FuncVC) siteClauses(v ssa.Value, d, x, r Term, pos token.Pos) {
	if fv.C == nil || len(fv.C.Sites) == 0 {
		return
	}
	if fv.appendOrd == nil {
		fv.appendOrd = map[ssa.Value]int{}
		var calls []*ssa.Call
		for _, b := range fv.Fn.Blocks {
			for _, in := range b.Instrs {
				if c, ok := in.(*ssa.Call); ok {
					if bi, ok := c.Call.Value.(*ssa.Builtin); ok && bi.Name() == "append" {
						calls = append(calls, c)
					}
				}
			}
		}
		sort.Slice(calls, func(i, j int) bool { return calls[i].Pos() < calls[j].Pos() })
		for i, c := range calls {
			fv.appendOrd[c] = i + 1
		}
		for n := range fv.C.Sites {
			if n < 1 || n > len(calls) {
				fv.unsupported("site append %d: the function has %d append calls", n, len(calls))
			}
		}
	}
	n := fv.appendOrd[v]
	cls := fv.C.Sites[n]
	if len(cls) == 0 {
		return
	}
	env := fv.newEnv(fv.cur, fv.entry)
	if fv.curBlock != nil {
		for _, b := range fv.Fn.Blocks {
			if !b.Dominates(fv.curBlock) {
				continue
			}
			for _, in := range b.Instrs {
				ph, ok := in.(*ssa.Phi)
				if !ok {
					break
				}
				if val, ok := fv.vals[ph]; ok && ph.Comment != "" {
					env.names[ph.Comment] = val
				}
			}
		}
	}
	env.names["chunk"] = Val{T: x}
	env.names["target"] = Val{T: d}
	env.names["appended"] = Val{T: r}
	for _, cl := range cls {
		switch cl.Kind {
		case "site-assert":
			t := env.evalBool(cl.E, cl)
			cs := splitAnd(t)
			for ci, c := range cs {
				dd := fmt.Sprintf("append%d.%d", n, cl.Idx)
				if len(cs) > 1 {
					dd = fmt.Sprintf("append%d.%d.%d", n, cl.Idx, ci+1)
				}
				fv.oblige("site", dd, cl.Props, pos, c, cl.Src)
			}
			fv.assume(t)
		case "site-cov":
			inc := env.coerce(env.eval(cl.E), SMath)
			cur := fv.ghostTerm(fv.cur, "cov", SMath)
			fv.cur.ghost["cov"] = Term{S: app("+", cur.S, inc.S), Sort: SMath}
		}
	}
}
