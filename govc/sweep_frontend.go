package main

import (
	"fmt"
	"go/token"
	"go/types"
	"strings"

	"golang.org/x/tools/go/ssa"
)

// Front-end template contracts (DESIGN 2.7 `frontend`). Every exported
// method of *Event, Context and *Array in the root package that has no
// explicit contract gets the default item contract, synthesized from the
// method set of the program being checked -- so a method added later is
// covered without anyone writing a contract for it:
//
//	*Event  m(key string, ...) *Event : on a non-nil event, e.buf stays an object buffer, exactly one member is appended
//	*Event  m(...)             *Event : e.buf stays an object buffer (prefix preserved)
//	Context m(key string, ...) Context: the same on c.l.context
//	*Array  m(...)             *Array : a.buf stays an element list with one more element
//
// An explicit contract carrying `flag frontend` is merged with the default
// (used to add requires such as wholevalue(b) for RawJSON); an explicit
// contract without it overrides the default; `flag nofrontend` opts out.

var frontendProps = []string{"C01", "C03", "C09"}

func mustParse(src string) Expr {
	e, err := parseExpr(src)
	if err != nil {
		panic(fmt.Sprintf("internal: cannot parse %q: %v", src, err))
	}
	return e
}

func addClause(list *[]*Clause, kind, src string, props []string) {
	cl := &Clause{Kind: kind, E: mustParse(src), Src: src, File: "(frontend template)", Props: props, Idx: len(*list) + 1}
	*list = append(*list, cl)
}

func recvNamed(fn *ssa.Function) (name string, ptr bool) {
	r := fn.Signature.Recv()
	if r == nil {
		return "", false
	}
	t := r.Type()
	if p, ok := t.(*types.Pointer); ok {
		t = p.Elem()
		ptr = true
	}
	if n, ok := t.(*types.Named); ok {
		return n.Obj().Name(), ptr
	}
	return "", ptr
}

func (p *Prog) synthesizeFrontends() []string {
	var notes []string
	count := map[string]int{}
	// *Event methods that hand the event to user code (directly, or by calling one that does)
	userCode := map[*ssa.Function]bool{}
	isEventMethod := func(fn *ssa.Function) bool {
		if fn == nil || fn.Pkg == nil || fn.Pkg.Pkg.Path() != p.ModPath || fn.Signature.Recv() == nil {
			return false
		}
		rn, ptr := recvNamed(fn)
		return rn == "Event" && ptr
	}
	for _, fn := range p.AllFns {
		if isEventMethod(fn) {
			switch fn.Name() {
			case "Func", "Object", "EmbedObject", "Fields":
				userCode[fn] = true
			}
		}
	}
	for changed := true; changed; {
		changed = false
		for _, fn := range p.AllFns {
			if !isEventMethod(fn) || userCode[fn] {
				continue
			}
			for _, b := range fn.Blocks {
				for _, in := range b.Instrs {
					if cl, ok := in.(ssa.CallInstruction); ok {
						if cal := cl.Common().StaticCallee(); cal != nil && userCode[cal] && !userCode[fn] {
							userCode[fn] = true
							changed = true
						}
					}
				}
			}
		}
	}
	for _, fn := range p.AllFns {
		if fn.Pkg == nil || fn.Pkg.Pkg.Path() != p.ModPath || len(fn.Blocks) == 0 || fn.Signature.Recv() == nil {
			continue
		}
		if !token.IsExported(fn.Name()) || strings.Contains(fn.Name(), "$") {
			continue
		}
		rn, ptr := recvNamed(fn)
		kind := ""
		switch {
		case rn == "Event" && ptr:
			kind = "event"
		case rn == "Context" && !ptr:
			kind = "context"
		case rn == "Array" && ptr:
			kind = "array"
		default:
			continue
		}
		// result must be the receiver type
		res := fn.Signature.Results()
		if res.Len() != 1 || !types.Identical(res.At(0).Type(), fn.Signature.Recv().Type()) {
			continue
		}
		c := p.CS.ByKey[fn.String()]
		if c != nil && c.Flags["frontend"] == "" {
			continue // explicit contract overrides the template (or nofrontend)
		}
		if c == nil {
			c = &Contract{Key: fn.String(), Kind: "func", Pkg: p.ModPath, Mode: ModeInt, Loops: map[int]*LoopSpec{}, Flags: map[string]string{}, File: "(frontend template)"}
			for _, prm := range fn.Params {
				c.Params = append(c.Params, prm.Name())
			}
			p.CS.ByKey[c.Key] = c
		}
		if len(c.Params) == 0 {
			for _, prm := range fn.Params {
				c.Params = append(c.Params, prm.Name())
			}
		}
		if len(c.Props) == 0 {
			c.Props = frontendProps
		}
		c.Flags["noovf"] = "1"
		r := c.Params[0]
		keyed := fn.Signature.Params().Len() > 0 && fn.Signature.Params().At(0).Name() == "key" && c.Flags["frontend"] != "loose"
		switch kind {
		case "event":
			addClause(&c.Requires, "requires", fmt.Sprintf("%s != nil ==> objbuf(%s.buf)", r, r), nil)
			if keyed {
				addClause(&c.Ensures, "ensures", fmt.Sprintf("%s != nil ==> objbuf(%s.buf) && mode(%s.buf) == OBJ_NEXT && stk(%s.buf) == old(stk(%s.buf)) && prefix(%s.buf, old(%s.buf)) && len(%s.buf) > old(len(%s.buf))", r, r, r, r, r, r, r, r, r), nil)
			} else {
				addClause(&c.Ensures, "ensures", fmt.Sprintf("%s != nil ==> objbuf(%s.buf) && stk(%s.buf) == old(stk(%s.buf)) && prefix(%s.buf, old(%s.buf))", r, r, r, r, r, r), nil)
				addClause(&c.Ensures, "ensures", fmt.Sprintf("%s != nil ==> same(%s.buf, old(%s.buf)) || (mode(%s.buf) == OBJ_NEXT && len(%s.buf) > old(len(%s.buf)))", r, r, r, r, r, r), nil)
			}
			addClause(&c.Ensures, "ensures", "res == "+r, nil)
			switch {
			case fn.Name() == "CallerSkipFrame":
			case userCode[fn]:
				// these hand the event (or, for Fields, values that are marshalers) to user code, which may
				// call CallerSkipFrame itself: nothing is claimed about the offset after them
			default:
				// C19: only CallerSkipFrame moves the event's frame offset; a method that left it changed
				// would shift the call site every later caller hook reports
				addClause(&c.Ensures, "ensures", fmt.Sprintf("%s != nil ==> %s.skipFrame == old(%s.skipFrame)", r, r, r), []string{"C19"})
			}
		case "context":
			b := r + ".l.context"
			rb := "res.l.context"
			addClause(&c.Requires, "requires", fmt.Sprintf("ctxbuf(%s)", b), nil)
			if keyed {
				addClause(&c.Ensures, "ensures", fmt.Sprintf("ctxbuf(%s) && mode(%s) == OBJ_NEXT && prefix(%s, %s)", rb, rb, rb, b), nil)
			} else {
				addClause(&c.Ensures, "ensures", fmt.Sprintf("ctxbuf(%s) && prefix(%s, %s)", rb, rb, b), nil)
			}
		case "array":
			b := r + ".buf"
			if !c.HasMod {
				// frame: only the array's own buffer (events taken from and returned to the pool inside
				// the method are not visible to a caller that respects the ownership discipline of C06)
				c.HasMod = true
				c.Modifies = []string{r + ".buf", "pooled Event", "pooled Array"}
			}
			addClause(&c.Requires, "requires", fmt.Sprintf("%s != nil && listbuf(%s)", r, b), nil)
			addClause(&c.Ensures, "ensures", fmt.Sprintf("listbuf(%s) && len(%s) > old(len(%s)) && prefix(%s, old(%s))", b, b, b, b, b), nil)
			addClause(&c.Ensures, "ensures", "res == "+r, nil)
		}
		count[kind]++
	}
	notes = append(notes, fmt.Sprintf("frontend template contracts synthesized: %d *Event, %d Context, %d *Array methods", count["event"], count["context"], count["array"]))
	return notes
}
