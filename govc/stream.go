package main

func (fv *FuncVC) setupStream() {}
