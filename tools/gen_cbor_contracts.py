#!/usr/bin/env python3
import sys
if "--force" not in sys.argv: sys.exit("HISTORICAL GUARD: rerunning this generator would overwrite hand-written decoder contracts in /repo/internal/cbor/zz_contracts_verif.go; pass --force only if you know what you are doing")
# Authoring helper (HISTORICAL: do not rerun, the cbor contract file has since been extended by hand with the decoder contracts): wrote /repo/internal/cbor/zz_contracts_verif.go and /repo/zz_contracts_cbor_verif.go
def be(n):  # big-endian argument of n bytes starting at p+1
    parts=[]
    for k in range(n):
        sh=8*(n-1-k)
        t=f'uint64(b[p+{k+1}])'
        parts.append(f'{t} * {2**sh}' if sh else t)
    return ' + '.join(parts)
HDR=f'''//go:build verif

package cbor

// Contracts for the verifier in /verif (govc). Comment-only file.
//
// Byte-level specification of RFC 8949 heads, as an independent parser would
// read them: mt = major type, ai = additional information, argof = the
// argument, headlen = bytes taken by the head. Every leaf encoder is proved
// (machine arithmetic, arith bv) to emit a head with the right major type and
// argument and a payload of exactly the announced length; its token-level
// effect on the stream ghosts ("one data item") is an assumed postcondition
// (ensures!) justified by that byte-level postcondition and RFC 8949 3.

//@ spec ai(b bytes, p int) uint8 = b[p] % 32
//@ spec mt(b bytes, p int) uint8 = b[p] / 32
//@ spec argof(b bytes, p int) uint64 = ite(ai(b, p) < 24, uint64(ai(b, p)), ite(ai(b, p) == 24, {be(1)}, ite(ai(b, p) == 25, {be(2)}, ite(ai(b, p) == 26, {be(4)}, {be(8)}))))
//@ spec headlen(b bytes, p int) int = ite(ai(b, p) < 24, 1, ite(ai(b, p) == 24, 2, ite(ai(b, p) == 25, 3, ite(ai(b, p) == 26, 5, 9))))
//@ spec headok(b bytes, p int) bool = ai(b, p) <= 27
//@ spec bc(n uint64) int = ite(n < 256, 0, ite(n < 65536, 1, ite(n < 4294967296, 3, 7)))
//@ spec minorof(n uint64) uint8 = ite(n < 256, 24, ite(n < 65536, 25, ite(n < 4294967296, 26, 27)))
//@ spec onehead(res bytes, dst bytes, major uint8, n uint64) bool = prefix(res, dst) && len(res) == len(dst) + headlen(res, len(dst)) && headok(res, len(dst)) && mt(res, len(dst)) == major && argof(res, len(dst)) == n

//@ track Encoder.AppendString, Encoder.AppendBool, Encoder.AppendInt, Encoder.AppendInt64, Encoder.AppendUint, Encoder.AppendUint8, Encoder.AppendUint16, Encoder.AppendUint32, Encoder.AppendUint64, Encoder.AppendFloat32, Encoder.AppendFloat64, Encoder.AppendTime, Encoder.AppendDuration, Encoder.AppendStringer

//@ config JSONMarshalFunc != nil

//@ var JSONMarshalFunc(v) res, err
//@   modifies nothing

'''
COMMON_BV='''//@   props C09 C01 C03
//@   arith bv
//@   flag tags binary_log
'''
COMMON='''//@   props C09 C01 C03
//@   arith int
//@   flag noovf
//@   flag tags binary_log
'''
VAL='//@   ensures! emitsvalue(res, dst)\n'
out=HDR
inv=' && '.join([f'((byteCount < {k} && {k} <= bc(number)) ==> dst[len(dst0) + 1 + (bc(number) - {k})] == uint8(number >> {8*k}))' for k in range(8)])
out+=f'''//@ func appendCborTypePrefix(dst, major, number) res
{COMMON_BV}//@   requires major % 32 == 0
//@   ensures onehead(res, dst, major / 32, number)
//@   ensures ai(res, len(dst)) >= 24 && ai(res, len(dst)) == minorof(number)
//@   loop 1:
//@     invariant -1 <= byteCount && byteCount <= bc(number) && len(dst) == len(dst0) + 1 + (bc(number) - byteCount) && prefix(dst, dst0) && dst[len(dst0)] == major | minorof(number)
//@     invariant {inv}
//@     decreases byteCount + 1

//@ func (Encoder).AppendKey(e, dst, key) res
{COMMON}//@   requires len(key) < 4611686018427387904
//@   ensures! lex(res) == 0 && mode(res) == AFTER_KEY && stk(res) == stk(dst) && prefix(res, dst) && len(res) > len(dst)
//@   ensures len(dst) >= 1 ==> prefix(res, dst) && mt(res, len(dst)) == 3 && argof(res, len(dst)) == uint64(len(key)) && len(res) == len(dst) + headlen(res, len(dst)) + len(key)

'''
def strlike(name, major, recv='(Encoder).', params='e, dst, s', s='s'):
    return f'''//@ func {recv}{name}({params}) res
{COMMON}//@   requires len({s}) < 4611686018427387904
//@   ensures prefix(res, dst) && headok(res, len(dst)) && mt(res, len(dst)) == {major} && argof(res, len(dst)) == uint64(len({s})) && len(res) == len(dst) + headlen(res, len(dst)) + len({s})
//@   ensures contentat(res, len(dst) + headlen(res, len(dst)), {s})
{VAL}
'''
out+=strlike('AppendString',3)
out+=strlike('AppendBytes',2)
def tagged(name, tagbytes, params='dst, s', s='s', recv=''):
    n=len(tagbytes)
    tb=' && '.join([f'res[len(dst) + {i}] == {b}' for i,b in enumerate(tagbytes)])
    return f'''//@ func {recv}{name}({params}) res
{COMMON}//@   requires len({s}) < 4611686018427387904
//@   ensures prefix(res, dst) && {tb}
//@   ensures headok(res, len(dst) + {n}) && mt(res, len(dst) + {n}) == 2 && argof(res, len(dst) + {n}) == uint64(len({s})) && len(res) == len(dst) + {n} + headlen(res, len(dst) + {n}) + len({s})
//@   ensures contentat(res, len(dst) + {n} + headlen(res, len(dst) + {n}), {s})
{VAL}
'''
out+=tagged('AppendEmbeddedJSON',[0xd9,0x01,0x06])
out+=tagged('AppendEmbeddedCBOR',[0xd8,0x3f])
out+=tagged('AppendHex',[0xd9,0x01,0x07],params='e, dst, val',s='val',recv='(Encoder).')
out+=tagged('AppendIPAddr',[0xd9,0x01,0x04],params='e, dst, ip',s='ip',recv='(Encoder).')
out+=tagged('AppendMACAddr',[0xd9,0x01,0x04],params='e, dst, ha',s='ha',recv='(Encoder).')
def onebyte(name, byte, mode_post, params='e, dst'):
    return f'''//@ func (Encoder).{name}({params}) res
{COMMON}//@   ensures prefix(res, dst) && len(res) == len(dst) + 1 && res[len(dst)] == {byte}
//@   ensures base(res) == base(dst) || fresh(res)
//@   ensures! {mode_post}

'''
out+=onebyte('AppendNil',0xf6,'emitsvalue(res, dst)')
out+=onebyte('AppendBeginMarker',0xbf,"lex(res) == 0 && mode(res) == OBJ_FIRST && stk(res) == pushstk(mode(dst), stk(dst)) && prefix(res, dst) && len(res) == len(dst) + 1")
out+=onebyte('AppendEndMarker',0xff,"lex(res) == 0 && mode(res) == closemode(stk(dst)) && stk(res) == popstk(stk(dst)) && prefix(res, dst) && len(res) == len(dst) + 1")
out+=onebyte('AppendArrayStart',0x9f,"lex(res) == 0 && mode(res) == ARR_FIRST && stk(res) == pushstk(mode(dst), stk(dst)) && prefix(res, dst) && len(res) == len(dst) + 1")
out+=onebyte('AppendArrayEnd',0xff,"lex(res) == 0 && mode(res) == closemode(stk(dst)) && stk(res) == popstk(stk(dst)) && prefix(res, dst) && len(res) == len(dst) + 1")
out+=f'''//@ func (Encoder).AppendArrayDelim(e, dst) res
{COMMON}//@   ensures same(res, dst)

//@ func (Encoder).AppendLineBreak(e, dst) res
{COMMON}//@   ensures same(res, dst)

//@ func (Encoder).AppendObjectData(e, dst, o) res
//@   props C09 C01 C03
//@   arith int
//@   flag tags binary_log
//@   requires objbuf(dst) && stk(dst) == STK_OBJ
//@   requires len(o) >= 2 && lex(o) == 0 && mode(o) == OBJ_NEXT && stk(o) == STK_OBJ
//@   ensures lex(res) == 0 && mode(res) == OBJ_NEXT && stk(res) == stk(dst) && prefix(res, dst) && len(res) == len(dst) + len(o) - 1

//@ func (Encoder).AppendBool(e, dst, val) res
{COMMON}//@   ensures prefix(res, dst) && len(res) == len(dst) + 1 && res[len(dst)] == ite(val, 0xf5, 0xf4)
{VAL}
'''
def intf(name, typ, body):
    rp = "//@   flag replay cbor_uint val=val\n" if name.startswith("AppendUint") else ""
    return f'''//@ func (Encoder).{name}(e, dst, val) res
{COMMON_BV}{rp}{body}{VAL}
'''
signed='''//@   ensures val >= 0 ==> onehead(res, dst, 0, uint64(val))
//@   ensures val < 0 ==> onehead(res, dst, 1, uint64(-1 - val))
'''
out+=intf('AppendInt','int',signed)+intf('AppendInt64','int64',signed)
for w in ['8','16','32']:
    out+=intf('AppendInt'+w,'int'+w,signed.replace('uint64(val)','uint64(int64(val))').replace('uint64(-1 - val)','uint64(-1 - int64(val))'))
unsigned='//@   ensures onehead(res, dst, 0, uint64(val))\n'
for w in ['','8','16','32','64']:
    out+=intf('AppendUint'+w,'uint'+w,unsigned)
def arr(name, elem, params='e, dst, vals', extra=''):
    p=params
    return f'''//@ func (Encoder).{name}({p}) res
{COMMON}//@   requires true{extra}
//@   ensures len(vals) == 0 ==> prefix(res, dst) && len(res) == len(dst) + 2 && res[len(dst)] == 0x9f && res[len(dst) + 1] == 0xff
//@   ensures len(vals) > 0 ==> prefix(res, dst) && headok(res, len(dst)) && mt(res, len(dst)) == 4 && argof(res, len(dst)) == uint64(len(vals))
//@   ensures len(vals) > 0 ==> ncalls({elem}) == old(ncalls({elem})) + len(vals)
{VAL}//@   loop 1:
//@     invariant 0 <= rangeindex + 1 && rangeindex + 1 <= len(vals) && len(vals) > 0
//@     invariant prefix(dst, dst0) && len(dst) >= len(dst0) + headlen(dst, len(dst0)) && headok(dst, len(dst0)) && mt(dst, len(dst0)) == 4 && argof(dst, len(dst0)) == uint64(len(vals))
//@     invariant ncalls({elem}) == old(ncalls({elem})) + rangeindex + 1

'''
out+=f'''//@ func (Encoder).AppendStrings(e, dst, vals) res
{COMMON}//@   ensures prefix(res, dst) && headok(res, len(dst)) && mt(res, len(dst)) == 4 && argof(res, len(dst)) == uint64(len(vals))
//@   ensures ncalls(Encoder.AppendString) == old(ncalls(Encoder.AppendString)) + len(vals)
{VAL}//@   loop 1:
//@     invariant 0 <= rangeindex + 1 && rangeindex + 1 <= len(vals)
//@     invariant prefix(dst, dst0) && len(dst) >= len(dst0) + headlen(dst, len(dst0)) && headok(dst, len(dst0)) && mt(dst, len(dst0)) == 4 && argof(dst, len(dst0)) == uint64(len(vals))
//@     invariant ncalls(Encoder.AppendString) == old(ncalls(Encoder.AppendString)) + rangeindex + 1

'''
out+=arr('AppendBools','Encoder.AppendBool')
out+=arr('AppendInts','Encoder.AppendInt'); out+=arr('AppendInts8','Encoder.AppendInt'); out+=arr('AppendInts16','Encoder.AppendInt'); out+=arr('AppendInts32','Encoder.AppendInt'); out+=arr('AppendInts64','Encoder.AppendInt64')
out+=arr('AppendUints','Encoder.AppendUint'); out+=arr('AppendUints8','Encoder.AppendUint8'); out+=arr('AppendUints16','Encoder.AppendUint16'); out+=arr('AppendUints32','Encoder.AppendUint32'); out+=arr('AppendUints64','Encoder.AppendUint64')
out+=arr('AppendFloats32','Encoder.AppendFloat32',params='e, dst, vals, unused'); out+=arr('AppendFloats64','Encoder.AppendFloat64',params='e, dst, vals, unused')
out+=arr('AppendTimes','Encoder.AppendTime',params='e, dst, vals, unused')
out+=arr('AppendDurations','Encoder.AppendDuration',params='e, dst, vals, unit, useInt, unused',extra=' && (useInt ==> unit != 0)')
out+=f'''//@ func (Encoder).AppendFloat32(e, dst, val, unused) res
{COMMON}//@   ensures prefix(res, dst) && len(res) == len(dst) + 5 && res[len(dst)] == 0xfa
{VAL}//@   loop 1:
//@     invariant i <= 4

//@ func (Encoder).AppendFloat64(e, dst, val, unused) res
{COMMON}//@   ensures prefix(res, dst) && len(res) == len(dst) + 9 && res[len(dst)] == 0xfb
{VAL}//@   loop 1:
//@     invariant 1 <= i && i <= 9 && prefix(dst, dst0) && len(dst) == len(dst0) + i && dst[len(dst0)] == 0xfb

//@ func appendIntegerTimestamp(dst, t) res
{COMMON}//@   ensures prefix(res, dst) && res[len(dst)] == 0xc1 && len(res) == len(dst) + 1 + headlen(res, len(dst) + 1) && mt(res, len(dst) + 1) <= 1
{VAL}
//@ func (Encoder).appendFloatTimestamp(e, dst, t) res
{COMMON}//@   ensures prefix(res, dst) && res[len(dst)] == 0xc1 && res[len(dst) + 1] == 0xfb && len(res) == len(dst) + 10
{VAL}
//@ func (Encoder).AppendTime(e, dst, t, unused) res
{COMMON}//@   ensures prefix(res, dst) && res[len(dst)] == 0xc1 && len(res) > len(dst) + 1
{VAL}
//@ func (Encoder).AppendDuration(e, dst, d, unit, useInt, unused) res
{COMMON}//@   requires (useInt ==> unit != 0)
//@   ensures prefix(res, dst) && len(res) > len(dst)
{VAL}
//@ func (Encoder).AppendInterface(e, dst, i) res
{COMMON}//@   requires JSONMarshalFunc != nil
//@   ensures prefix(res, dst) && len(res) > len(dst)
{VAL}
//@ func (Encoder).AppendType(e, dst, i) res
{COMMON}//@   ensures prefix(res, dst) && mt(res, len(dst)) == 3
{VAL}
//@ func (Encoder).AppendStringer(e, dst, val) res
{COMMON}//@   ensures prefix(res, dst) && len(res) > len(dst)
{VAL}
//@ func (Encoder).AppendStringers(e, dst, vals) res
{COMMON}//@   requires true
//@   ensures prefix(res, dst) && res[len(dst)] == 0x9f && res[len(res) - 1] == 0xff
//@   ensures ncalls(Encoder.AppendStringer) == old(ncalls(Encoder.AppendStringer)) + len(vals)
{VAL}//@   loop 1:
//@     invariant 0 <= rangeindex + 1 && rangeindex + 1 <= len(vals) - 1
//@     invariant prefix(dst, dst0) && len(dst) > len(dst0) && dst[len(dst0)] == 0x9f
//@     invariant ncalls(Encoder.AppendStringer) == old(ncalls(Encoder.AppendStringer)) + 1 + rangeindex + 1

//@ func (Encoder).AppendIPPrefix(e, dst, pfx) res
{COMMON}//@   ensures prefix(res, dst) && res[len(dst)] == 0xd9 && res[len(dst) + 1] == 0x01 && res[len(dst) + 2] == 0x05 && res[len(dst) + 3] == 0xa1 && mt(res, len(dst) + 4) == 2
{VAL}'''
out+='''
// ---------------------------------------------------------------------------
// decode_stream.go: helper contracts for the safety sweep (C17). The sweep
// itself needs no annotation; these give callers the two facts they rely on
// (a read returns exactly the bytes asked for; positions stay inside the
// string) and the loop invariants of the escaper.

//@ func readNBytes(src, n) res
//@   props C17 C08
//@   arith bv
//@   flag tags binary_log
//@   ensures len(res) == n
//@   loop 1:
//@     invariant 0 <= i && i <= n && len(ret) == i

//@ func decodeStringComplex(dst, s, pos) res
//@   props C17 C08
//@   arith bv
//@   flag tags binary_log
//@   requires int(pos) >= 0 && int(pos) <= len(s)
//@   loop 1:
//@     invariant 0 <= start && start <= i && i <= len(s)
'''
open('/repo/internal/cbor/zz_contracts_verif.go','w').write(out)
print(out.count('//@ func'),'cbor function contracts')
ROOT='''//go:build verif && binary_log

package zerolog

// Contracts that are specific to the binary (CBOR) build. Comment-only.
//
// In this build the stream ghosts are advanced at token level only: the CBOR
// leaf encoders state "one data item" as an assumed postcondition backed by
// their proved byte-level head/payload postconditions (internal/cbor), and
// the front-ends are proved against those, so that every event is
// bf (text-string key, one item)* ff with balanced indefinite containers.

//@ spec objbuf(b bytes) bool = len(b) >= 1 && lex(b) == 0 && (mode(b) == OBJ_FIRST || mode(b) == OBJ_NEXT)
//@ spec valueok(b bytes) bool = lex(b) == 0 && valuepos(mode(b))
//@ spec emitsvalue(res bytes, dst bytes) bool = lex(res) == 0 && mode(res) == aftervalue(mode(dst)) && stk(res) == stk(dst) && len(res) > len(dst) && prefix(res, dst)
//@ spec wholevalue(b bytes) bool = len(b) >= 0
//@ spec firstbyte(b bytes) bool = b[0] == 0xbf
//@ spec eventdone(b bytes) bool = lex(b) == 0 && mode(b) == DONE && stk(b) == STK_EMPTY
//@ spec framebytes() int = 1
//@ spec arrmid() math = ARR_NEXT

//@ func appendJSON(dst, j) res
//@   props C01 C09
//@   arith int
//@   requires valueok(dst)
//@   ensures emitsvalue(res, dst)

//@ func appendCBOR(dst, c) res
//@   props C01 C09
//@   arith int
//@   requires valueok(dst)
//@   ensures emitsvalue(res, dst)
'''
open('/repo/zz_contracts_cbor_verif.go','w').write(ROOT)
