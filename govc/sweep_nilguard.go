package main

import (
	"go/types"
	"strings"
)

func init() { sweepTable["nilguard"] = sweepNilguard }

// nilguardInternal: helpers that are only reached behind a caller's guard.
var nilguardInternal = map[string]bool{"msg": true, "appendObject": true}

// sweepNilguard: every method with receiver *Event (except the internal
// helpers that are only called behind a guard) is inert on a nil receiver:
// no dereference, no store, no call other than to the event's own methods,
// nil/false result. Zero annotations: the method set is enumerated from the
// SSA program at check time, so methods added later are covered.
func sweepNilguard(p *Prog, pc *PropConfig, tags string, r *checkResult) {
	internal := nilguardInternal
	n := 0
	for _, fn := range p.AllFns {
		if fn.Pkg == nil || fn.Pkg.Pkg.Path() != p.ModPath || fn.Signature.Recv() == nil || len(fn.Blocks) == 0 {
			continue
		}
		pt, ok := fn.Signature.Recv().Type().(*types.Pointer)
		if !ok {
			continue
		}
		nt, ok := pt.Elem().(*types.Named)
		if !ok || nt.Obj().Name() != "Event" || internal[fn.Name()] || strings.Contains(fn.Name(), "$") {
			continue
		}
		recv := fn.Params[0].Name()
		e, _ := parseExpr(recv + " == nil")
		c := &Contract{Key: fn.String(), Kind: "func", Pkg: p.ModPath, Mode: ModeInt, Props: []string{pc.ID}, Loops: map[int]*LoopSpec{}, Flags: map[string]string{"noovf": "1", "replay": "nilguard", "replayconst": "METHOD=" + fn.Name()},
			File: "(sweep nilguard)"}
		c.Requires = []*Clause{{Kind: "requires", E: e, Src: recv + " == nil", File: "(sweep nilguard)", Idx: 1}}
		fv := newFuncVC(p, fn, c)
		fv.Name += "[nil]"
		fv.lenient = true
		fv.inert = true
		fv.activeProp = pc.ID
		if err := fv.translate(); err != nil {
			r.errors = append(r.errors, err.Error())
			continue
		}
		fv.addProbes()
		r.fvs = append(r.fvs, fv)
		n++
	}
	r.notes = append(r.notes, "nilguard sweep: "+itoa(n)+" *Event methods enumerated from the SSA program")
	if n < 60 {
		r.errors = append(r.errors, "nilguard sweep found only "+itoa(n)+" *Event methods (expected at least 60)")
	}
}

func itoa(n int) string {
	return strings.TrimSpace(strings.Replace(strings.Repeat(" ", 0)+fmtInt(n), " ", "", -1))
}

func fmtInt(n int) string {
	if n == 0 {
		return "0"
	}
	neg := n < 0
	if neg {
		n = -n
	}
	var b []byte
	for n > 0 {
		b = append([]byte{byte('0' + n%10)}, b...)
		n /= 10
	}
	if neg {
		b = append([]byte{'-'}, b...)
	}
	return string(b)
}
