package main

import (
	"fmt"
	"go/token"
	"go/types"
	"sort"
	"strings"

	"golang.org/x/tools/go/ssa"
)

func init() { sweepTable["ownership"] = sweepOwnership }

// sweepOwnership (C06): the discipline that makes the interleaving irrelevant,
// as effect/ownership conditions over the SSA of every function of the module.
//
//	consumed   A pooled object handed to putEvent/putArray -- directly, or
//	           through a function that passes its parameter on to them (computed
//	           as a fixpoint: Event.write, Event.msg, Event.Dict's dict,
//	           (*Array).write, ...) -- is not used again by the function on any
//	           path after that call. This is "a pool entry has a single owner
//	           between Get and Put" and "the event returns to the pool only
//	           after the writer call returned" (a WriteLevel(e.level, e.buf)
//	           after putEvent(e) is a use of e after the put).
//	noretain   No Write/WriteLevel method of the module keeps a reference to
//	           the slice it is given beyond its own return: the parameter (or a
//	           slice of it, or an object wrapping it) is not stored into the
//	           heap, a map or a channel, not captured by a goroutine or an
//	           escaping closure, and is passed only to downstream
//	           Write/WriteLevel calls, to module functions that owe the same,
//	           and to library functions in the trusted `noretain` table. Methods
//	           whose contract proves a copy (diode.Writer.Write) are skipped.
//	atomic     A variable or struct field that is passed to sync/atomic
//	           anywhere in the module is accessed only through sync/atomic.
//	heldcall   (in the VC generator, `flag guarded`): a call on the writer held
//	           in a guarded field happens with the mutex held.
type ownSweep struct {
	p      *Prog
	pc     *PropConfig
	r      *checkResult
	fv     *FuncVC
	names  map[string]int
	counts map[string]*FuncReport
	suffix string
	backendName string
}

func (s *ownSweep) oblige(fn *ssa.Function, kind, detail string, pos token.Pos, ok bool, why string) {
	fname := fn.String() + s.suffix
	name := fname + "#" + kind + "(" + detail + ")"
	s.names[name]++
	if n := s.names[name]; n > 1 {
		name = fmt.Sprintf("%s@%d", name, n)
	}
	o := &Obligation{Name: name, Kind: kind, Props: []string{s.pc.ID}, Pos: pos, Where: s.p.relPos(pos), Src: why,
		Reach: "true", Goal: "false", Func: fname, fv: s.fv, candidate: true, Block: -1}
	o.Res = SolveResult{Solver: s.backend(), All: map[string]string{s.backend(): map[bool]string{true: "holds", false: "fails"}[ok]}, Output: why}
	fr := s.counts[fname]
	if fr == nil {
		fr = &FuncReport{Name: fname, Arith: "effect"}
		s.counts[fname] = fr
	}
	fr.Obligations++
	if ok {
		o.Status = "discharged"
		o.Res.Verdict = VUnsat
		fr.Discharged++
	} else {
		o.Status = "failed"
		o.Res.Verdict = VUnknown
	}
	s.r.extraObl = append(s.r.extraObl, o)
}

// rootOf strips value-preserving wrappers.
func rootOf(v ssa.Value) ssa.Value {
	for i := 0; i < 20; i++ {
		switch x := v.(type) {
		case *ssa.MakeInterface:
			v = x.X
		case *ssa.ChangeInterface:
			v = x.X
		case *ssa.ChangeType:
			v = x.X
		case *ssa.TypeAssert:
			v = x.X
		case *ssa.Extract:
			if ta, ok := x.Tuple.(*ssa.TypeAssert); ok && x.Index == 0 {
				v = ta.X
			} else {
				return v
			}
		default:
			return v
		}
	}
	return v
}

type paramKey struct {
	fn  *ssa.Function
	idx int
}

// consumingParams: fixpoint of "parameter idx of fn is handed to a pool Put".
func (s *ownSweep) consumingParams() map[paramKey]bool {
	cons := map[paramKey]bool{}
	paramIdx := func(fn *ssa.Function, v ssa.Value) int {
		r := rootOf(v)
		for i, p := range fn.Params {
			if ssa.Value(p) == r {
				return i
			}
		}
		return -1
	}
	for changed := true; changed; {
		changed = false
		for _, fn := range s.p.AllFns {
			if !s.p.inModule(fn) || len(fn.Blocks) == 0 {
				continue
			}
			for _, b := range fn.Blocks {
				for _, in := range b.Instrs {
					ci, ok := in.(ssa.CallInstruction)
					if !ok {
						continue
					}
					cc := ci.Common()
					callee := cc.StaticCallee()
					if callee == nil {
						continue
					}
					if callee.String() == "(*sync.Pool).Put" && len(cc.Args) == 2 {
						if i := paramIdx(fn, cc.Args[1]); i >= 0 && !cons[paramKey{fn, i}] {
							cons[paramKey{fn, i}] = true
							changed = true
						}
						continue
					}
					for j, a := range cc.Args {
						if cons[paramKey{callee, j}] {
							if i := paramIdx(fn, a); i >= 0 && !cons[paramKey{fn, i}] {
								cons[paramKey{fn, i}] = true
								changed = true
							}
						}
					}
				}
			}
		}
	}
	return cons
}

func usesValue(in ssa.Instruction, r ssa.Value) bool {
	for _, op := range in.Operands(nil) {
		if *op != nil && rootOf(*op) == r {
			return true
		}
	}
	return false
}

// usesAfter: instructions reachable after `call` (not passing through the
// definition of r again) that use r.
func usesAfter(call ssa.Instruction, r ssa.Value) []ssa.Instruction {
	var out []ssa.Instruction
	def, _ := r.(ssa.Instruction)
	seen := map[*ssa.BasicBlock]bool{}
	var scan func(b *ssa.BasicBlock, from int)
	scan = func(b *ssa.BasicBlock, from int) {
		for i := from; i < len(b.Instrs); i++ {
			in := b.Instrs[i]
			if def != nil && in == def {
				return
			}
			if _, isDbg := in.(*ssa.DebugRef); isDbg {
				continue
			}
			if usesValue(in, r) {
				out = append(out, in)
			}
		}
		for _, s := range b.Succs {
			if !seen[s] {
				seen[s] = true
				scan(s, 0)
			}
		}
	}
	b := call.Block()
	for i, in := range b.Instrs {
		if in == call {
			scan(b, i+1)
			break
		}
	}
	return out
}

// bufferAliases: values that point into a []byte field of the object r.
func bufferAliases(fn *ssa.Function, r ssa.Value) []ssa.Value {
	set := map[ssa.Value]bool{}
	var out []ssa.Value
	for changed := true; changed; {
		changed = false
		add := func(v ssa.Value) {
			if !set[v] {
				set[v] = true
				out = append(out, v)
				changed = true
			}
		}
		for _, b := range fn.Blocks {
			for _, in := range b.Instrs {
				switch x := in.(type) {
				case *ssa.UnOp:
					if x.Op == token.MUL && isByteSlice(x.Type()) {
						if fa, ok := x.X.(*ssa.FieldAddr); ok && rootOf(fa.X) == r {
							add(x)
						}
					}
				case *ssa.Slice:
					if set[x.X] {
						add(x)
					}
				case *ssa.Phi:
					for _, e := range x.Edges {
						if set[e] {
							add(x)
						}
					}
				}
			}
		}
	}
	return out
}

func (s *ownSweep) checkConsumed() int {
	cons := s.consumingParams()
	var keys []string
	for k := range cons {
		keys = append(keys, fmt.Sprintf("%s[%d]", shortFn(k.fn), k.idx))
	}
	sort.Strings(keys)
	s.r.notes = append(s.r.notes, "functions that hand a parameter back to a pool (consuming): "+strings.Join(keys, ", "))
	n := 0
	for _, fn := range s.p.AllFns {
		if !s.p.inModule(fn) || len(fn.Blocks) == 0 {
			continue
		}
		for _, b := range fn.Blocks {
			for _, in := range b.Instrs {
				ci, ok := in.(ssa.CallInstruction)
				if !ok {
					continue
				}
				if _, isDefer := in.(*ssa.Defer); isDefer {
					// a deferred hand-over runs before the caller sees the results: nothing that points
					// into the object may be returned
					cc := ci.Common()
					callee := cc.StaticCallee()
					if callee == nil {
						continue
					}
					for j, a := range cc.Args {
						isPut := callee.String() == "(*sync.Pool).Put" && j == 1
						if !isPut && !cons[paramKey{callee, j}] {
							continue
						}
						r := rootOf(a)
						if c, isC := r.(*ssa.Const); isC && c.Value == nil {
							continue
						}
						n++
						derived := map[ssa.Value]bool{r: true}
						derivedCells := map[*ssa.Alloc]bool{}
						for changed := true; changed; {
							changed = false
							for _, bb := range fn.Blocks {
								for _, ii := range bb.Instrs {
									if st, ok := ii.(*ssa.Store); ok {
										if al, ok := st.Addr.(*ssa.Alloc); ok && derived[st.Val] && !derivedCells[al] {
											derivedCells[al] = true
											changed = true
										}
										continue
									}
									v, ok := ii.(ssa.Value)
									if !ok || derived[v] {
										continue
									}
									switch x := ii.(type) {
									case *ssa.Call:
										refLike := false
										switch x.Type().Underlying().(type) {
										case *types.Slice, *types.Pointer:
											refLike = true
										}
										if refLike && len(x.Call.Args) > 0 && derived[rootOf(x.Call.Args[0])] && x.Call.StaticCallee() != nil && x.Call.StaticCallee().Signature.Recv() != nil {
											derived[v] = true
											changed = true
										}
									case *ssa.Slice:
										if derived[x.X] {
											derived[v] = true
											changed = true
										}
									case *ssa.Phi:
										for _, e := range x.Edges {
											if derived[e] {
												derived[v] = true
												changed = true
											}
										}
									case *ssa.UnOp:
										// load from a local (e.g. a named result) that was assigned a derived value
										if al, ok := x.X.(*ssa.Alloc); ok && x.Op == token.MUL && derivedCells[al] {
											derived[v] = true
											changed = true
										}
									case *ssa.TypeAssert, *ssa.ChangeType, *ssa.MakeInterface:
										if derived[rootOf(v)] && rootOf(v) != v {
											derived[v] = true
											changed = true
										}
									}
								}
							}
						}
						var bad []string
						for _, bb := range fn.Blocks {
							for _, ii := range bb.Instrs {
								if ret, ok := ii.(*ssa.Return); ok {
									for _, res := range ret.Results {
										if derived[res] || derived[rootOf(res)] {
											bad = append(bad, fmt.Sprintf("%s at %s", ret.String(), s.p.relPos(ret.Pos())))
										}
									}
								}
							}
						}
						detail := fmt.Sprintf("deferred %s arg %d", shortFn(callee), j)
						if len(bad) == 0 {
							s.oblige(fn, "consumed", detail, in.Pos(), true, fmt.Sprintf("nothing that points into %s is returned past the deferred hand-over to %s", r.Name(), shortFn(callee)))
						} else {
							s.oblige(fn, "consumed", detail, in.Pos(), false, fmt.Sprintf("%s goes back to its pool when the function returns (deferred %s), but a value pointing into it is returned: %s", r.Name(), shortFn(callee), strings.Join(bad, "; ")))
						}
					}
					continue
				}
				cc := ci.Common()
				callee := cc.StaticCallee()
				if callee == nil {
					continue
				}
				for j, a := range cc.Args {
					isPut := callee.String() == "(*sync.Pool).Put" && j == 1
					if !isPut && !cons[paramKey{callee, j}] {
						continue
					}
					r := rootOf(a)
					if c, isC := r.(*ssa.Const); isC && c.Value == nil {
						continue
					}
					n++
					uses := usesAfter(in, r)
					// the object's buffer belongs to it: a slice loaded from one of its []byte fields
					// before the hand-over must not be used afterwards either
					for _, al := range bufferAliases(fn, r) {
						uses = append(uses, usesAfter(in, al)...)
					}
					detail := fmt.Sprintf("%s arg %d", shortFn(callee), j)
					if len(uses) == 0 {
						s.oblige(fn, "consumed", detail, in.Pos(), true, fmt.Sprintf("%s is not used on any path after it was handed to %s", r.Name(), shortFn(callee)))
					} else {
						var where []string
						for _, u := range uses {
							where = append(where, fmt.Sprintf("%s at %s", u.String(), s.p.relPos(u.Pos())))
						}
						s.oblige(fn, "consumed", detail, in.Pos(), false, fmt.Sprintf("%s is handed to %s (which returns it to its pool) and used afterwards: %s", r.Name(), shortFn(callee), strings.Join(where, "; ")))
					}
				}
			}
		}
	}
	return n
}

// ---------------------------------------------------------------------------
// noretain

// baseAlloc: the local variable (or temporary array) an address points into.
func baseAlloc(addr ssa.Value) *ssa.Alloc {
	for i := 0; i < 10; i++ {
		switch x := addr.(type) {
		case *ssa.Alloc:
			return x
		case *ssa.IndexAddr:
			addr = x.X
		case *ssa.FieldAddr:
			addr = x.X
		default:
			return nil
		}
	}
	return nil
}

type retainCtx struct {
	s       *ownSweep
	trusted map[string]bool
	wraps   map[string]bool
	dynOK   map[string]bool
	memo    map[paramKey]*retainResult
}

type retainResult struct {
	bad     []string
	returns bool // the function may return (something derived from) the parameter
	done    bool
}

func (rc *retainCtx) analyse(fn *ssa.Function, idx int) *retainResult {
	key := paramKey{fn, idx}
	if r := rc.memo[key]; r != nil {
		return r // includes in-progress (cycle): assume fine
	}
	res := &retainResult{}
	rc.memo[key] = res
	if idx >= len(fn.Params) {
		res.done = true
		return res
	}
	p := rc.s.p
	derived := map[ssa.Value]bool{fn.Params[idx]: true}
	cells := map[*ssa.Alloc]bool{}
	bad := func(in ssa.Instruction, f string, a ...interface{}) {
		res.bad = append(res.bad, fmt.Sprintf("%s (%s)", fmt.Sprintf(f, a...), p.relPos(in.Pos())))
	}
	isDerived := func(v ssa.Value) bool {
		if v == nil {
			return false
		}
		if derived[v] {
			return true
		}
		if a, ok := v.(*ssa.Alloc); ok && cells[a] {
			return true
		}
		return false
	}
	// propagate to a fixpoint (phis, loops)
	for changed := true; changed; {
		changed = false
		mark := func(v ssa.Value) {
			if !derived[v] {
				derived[v] = true
				changed = true
			}
		}
		for _, b := range fn.Blocks {
			for _, in := range b.Instrs {
				switch x := in.(type) {
				case *ssa.Slice:
					if isDerived(x.X) {
						mark(x)
					}
				case *ssa.Phi:
					for _, e := range x.Edges {
						if isDerived(e) {
							mark(x)
						}
					}
				case *ssa.ChangeType:
					if isDerived(x.X) {
						mark(x)
					}
				case *ssa.MakeInterface:
					if isDerived(x.X) {
						mark(x)
					}
				case *ssa.ChangeInterface:
					if isDerived(x.X) {
						mark(x)
					}
				case *ssa.TypeAssert:
					if isDerived(x.X) {
						mark(x)
					}
				case *ssa.Extract:
					if isDerived(x.Tuple) {
						mark(x)
					}
				case *ssa.Convert:
					// []byte -> string and back copy; conversions between slice types keep the array
					if isDerived(x.X) {
						_, fs := x.X.Type().Underlying().(*types.Slice)
						_, ts := x.Type().Underlying().(*types.Slice)
						if fs && ts {
							mark(x)
						}
						if _, isCell := x.X.(*ssa.Alloc); isCell {
							mark(x) // unsafe.Pointer(&p): the address of a variable holding the slice
						}
					}
				case *ssa.Store:
					if isDerived(x.Val) {
						if a := baseAlloc(x.Addr); a != nil {
							if !cells[a] {
								cells[a] = true
								changed = true
							}
						}
					}
				case *ssa.UnOp:
					if x.Op == token.MUL {
						if a, ok := x.X.(*ssa.Alloc); ok && cells[a] {
							mark(x)
						}
					}
				case *ssa.FieldAddr, *ssa.IndexAddr:
					// address inside a cell that holds the slice: not the slice itself
				case *ssa.Call:
					cc := &x.Call
					if b, ok := cc.Value.(*ssa.Builtin); ok {
						if b.Name() == "append" && isDerived(cc.Args[0]) {
							mark(x)
						}
						continue
					}
					callee := cc.StaticCallee()
					anyDerived := false
					for _, a := range cc.Args {
						if isDerived(a) {
							anyDerived = true
						}
					}
					if !anyDerived {
						continue
					}
					if callee != nil && rc.wraps[callee.String()] {
						mark(x)
					}
					if callee != nil && p.inModule(callee) && len(callee.Blocks) > 0 {
						for j, a := range cc.Args {
							if isDerived(a) && rc.analyse(callee, j).returns {
								mark(x)
							}
						}
					}
				}
			}
		}
	}
	// sinks
	for _, b := range fn.Blocks {
		for _, in := range b.Instrs {
			switch x := in.(type) {
			case *ssa.Store:
				if isDerived(x.Val) {
					if baseAlloc(x.Addr) == nil {
						bad(in, "stored through %s", x.Addr.String())
					}
				}
			case *ssa.MapUpdate:
				if isDerived(x.Value) || isDerived(x.Key) {
					bad(in, "stored in a map")
				}
			case *ssa.Send:
				if isDerived(x.X) {
					bad(in, "sent on a channel")
				}
			case *ssa.Return:
				for _, r := range x.Results {
					if isDerived(r) {
						res.returns = true
					}
				}
			case *ssa.MakeClosure:
				for _, bnd := range x.Bindings {
					if isDerived(bnd) {
						// fine only if the closure is called or deferred directly, never stored or passed on
						escapes := false
						for _, ref := range *x.Referrers() {
							switch r := ref.(type) {
							case *ssa.Call:
								if r.Call.Value != ssa.Value(x) {
									escapes = true
								}
							case *ssa.Defer:
								if r.Call.Value != ssa.Value(x) {
									escapes = true
								}
							default:
								escapes = true
							}
						}
						if escapes {
							bad(in, "captured by a closure that outlives the call")
						}
					}
				}
			case ssa.CallInstruction:
				cc := x.Common()
				var dArgs []int
				for j, a := range cc.Args {
					if isDerived(a) {
						dArgs = append(dArgs, j)
					}
				}
				if _, isGo := in.(*ssa.Go); isGo && (len(dArgs) > 0 || isDerived(cc.Value)) {
					bad(in, "handed to a goroutine")
					continue
				}
				if len(dArgs) == 0 {
					continue
				}
				if b, ok := cc.Value.(*ssa.Builtin); ok {
					if b.Name() == "append" {
						for _, j := range dArgs {
							if j == 0 {
								continue
							}
							// append(dst, p...) copies the bytes; append(list, p) keeps the reference
							// append(dst, p...) copies the elements: harmless for bytes, but elements that
							// themselves hold a reference (structs with a slice field, slices of slices) keep it
							variadicSpread := false
							if sl, ok := cc.Args[1].Type().Underlying().(*types.Slice); ok && cc.Signature().Variadic() && len(cc.Args) == 2 {
								if _, basic := sl.Elem().Underlying().(*types.Basic); basic {
									variadicSpread = true
								}
							}
							if _, isStr := cc.Args[1].Type().Underlying().(*types.Basic); isStr {
								variadicSpread = true
							}
							if !variadicSpread {
								bad(in, "appended as an element")
							}
						}
					}
					continue
				}
				if cc.IsInvoke() {
					name := cc.Method.Name()
					if !rc.dynOK[name] {
						bad(in, "passed to the dynamic call %s", ifaceMethodName(cc))
					}
					continue
				}
				callee := cc.StaticCallee()
				if callee == nil {
					bad(in, "passed to a function value (%s)", describeFuncValue(cc.Value))
					continue
				}
				if p.inModule(callee) && len(callee.Blocks) > 0 {
					for _, j := range dArgs {
						sub := rc.analyse(callee, j)
						for _, m := range sub.bad {
							res.bad = append(res.bad, "via "+shortFn(callee)+": "+m)
						}
					}
					continue
				}
				if !rc.trusted[callee.String()] && !rc.wraps[callee.String()] {
					bad(in, "passed to %s, which is not in the trusted noretain table", callee.String())
				}
			}
		}
	}
	res.done = true
	return res
}

func (s *ownSweep) checkNoRetain() int {
	rc := &retainCtx{s: s, trusted: map[string]bool{}, wraps: map[string]bool{}, dynOK: map[string]bool{}, memo: map[paramKey]*retainResult{}}
	for _, d := range s.p.CS.Effects {
		if d.Effect != "noretain" {
			continue
		}
		for _, w := range d.Words {
			switch d.Kind {
			case "trusted":
				rc.trusted[w] = true
			case "wraps":
				rc.wraps[w] = true
			case "dynamic":
				rc.dynOK[w] = true
			}
		}
	}
	n := 0
	for _, fn := range s.p.AllFns {
		if !s.p.inModule(fn) || len(fn.Blocks) == 0 || fn.Signature.Recv() == nil {
			continue
		}
		if fn.Name() != "Write" && fn.Name() != "WriteLevel" {
			continue
		}
		if fn.Pkg == nil {
			continue
		}
		skip := false
		for _, d := range s.p.CS.Effects {
			if d.Effect == "noretain" && d.Kind == "skip" && strings.HasSuffix(fn.Pkg.Pkg.Path(), d.Words[0]) {
				skip = true // not an event destination (reason in the contract file)
			}
		}
		if skip {
			continue
		}
		idx := -1
		for i, prm := range fn.Params {
			if isByteSlice(prm.Type()) {
				idx = i
			}
		}
		if idx < 0 {
			continue
		}
		n++
		if c := s.p.CS.ByKey[fn.String()]; c != nil && c.Flags["copies"] != "" {
			s.oblige(fn, "noretain", fn.Params[idx].Name(), fn.Pos(), true, "proved by the function's own contract (flag copies): what is stored has a fresh backing array")
			continue
		}
		res := rc.analyse(fn, idx)
		if len(res.bad) == 0 {
			s.oblige(fn, "noretain", fn.Params[idx].Name(), fn.Pos(), true, "no reference to the slice survives the call: not stored, sent, captured or handed to a goroutine; passed only to downstream Write/WriteLevel calls, module functions that owe the same and trusted library functions")
		} else {
			s.oblige(fn, "noretain", fn.Params[idx].Name(), fn.Pos(), false, "the slice handed to the writer may be retained: "+strings.Join(res.bad, "; "))
		}
	}
	return n
}

// ---------------------------------------------------------------------------
// atomic

func isAtomicCall(cc *ssa.CallCommon) bool {
	f := cc.StaticCallee()
	return f != nil && f.Pkg != nil && f.Pkg.Pkg.Path() == "sync/atomic"
}

func (s *ownSweep) checkAtomics() int {
	type loc struct {
		global *ssa.Global
		field  string // Type.field
	}
	atomicLocs := map[loc]bool{}
	fieldKey := func(fa *ssa.FieldAddr) string {
		pt, ok := fa.X.Type().Underlying().(*types.Pointer)
		if !ok {
			return ""
		}
		st, ok := pt.Elem().Underlying().(*types.Struct)
		if !ok {
			return ""
		}
		return types.TypeString(pt.Elem(), nil) + "." + st.Field(fa.Field).Name()
	}
	locOf := func(v ssa.Value) (loc, bool) {
		switch x := v.(type) {
		case *ssa.UnOp: // *G where G holds a pointer
			if x.Op == token.MUL {
				if g, ok := x.X.(*ssa.Global); ok {
					return loc{global: g}, true
				}
			}
		case *ssa.Global:
			return loc{global: x}, true
		case *ssa.FieldAddr:
			if _, fresh := x.X.(*ssa.Alloc); fresh {
				// an object this function has just allocated and not yet published (constructors)
				return loc{}, false
			}
			if k := fieldKey(x); k != "" {
				return loc{field: k}, true
			}
		}
		return loc{}, false
	}
	fns := []*ssa.Function{}
	for _, fn := range s.p.AllFns {
		if s.p.inModule(fn) && len(fn.Blocks) > 0 {
			fns = append(fns, fn)
		}
	}
	for _, fn := range fns {
		for _, b := range fn.Blocks {
			for _, in := range b.Instrs {
				ci, ok := in.(ssa.CallInstruction)
				if !ok || !isAtomicCall(ci.Common()) || len(ci.Common().Args) == 0 {
					continue
				}
				if l, ok := locOf(ci.Common().Args[0]); ok {
					atomicLocs[l] = true
				}
			}
		}
	}
	n := 0
	for _, fn := range fns {
		if isInitFn(fn) {
			continue // package initialisation happens before any goroutine of the program can log
		}
		for _, b := range fn.Blocks {
			for _, in := range b.Instrs {
				v, ok := in.(ssa.Value)
				if !ok {
					continue
				}
				l, ok := locOf(v)
				if !ok || !atomicLocs[l] {
					continue
				}
				if _, isG := v.(*ssa.Global); isG {
					continue
				}
				name := l.field
				if l.global != nil {
					name = l.global.Name()
				}
				// every use of this address must be the first argument of a sync/atomic call
				okAll := true
				var badUse string
				refs := v.Referrers()
				if refs == nil {
					continue
				}
				for _, ref := range *refs {
					if _, isDbg := ref.(*ssa.DebugRef); isDbg {
						continue
					}
					if ci, isCall := ref.(ssa.CallInstruction); isCall && isAtomicCall(ci.Common()) && ci.Common().Args[0] == v {
						continue
					}
					okAll = false
					badUse = fmt.Sprintf("%s at %s", ref.String(), s.p.relPos(ref.Pos()))
				}
				n++
				if okAll {
					s.oblige(fn, "atomic", name, in.Pos(), true, name+" is accessed through sync/atomic only")
				} else {
					s.oblige(fn, "atomic", name, in.Pos(), false, name+" is updated with sync/atomic elsewhere but accessed plainly here: "+badUse)
				}
			}
		}
	}
	// a plain load or store of a global that is used atomically (the variable itself, not the pointer it holds)
	for _, fn := range fns {
		if isInitFn(fn) {
			continue
		}
		for _, b := range fn.Blocks {
			for _, in := range b.Instrs {
				if st, ok := in.(*ssa.Store); ok {
					if g, ok := st.Addr.(*ssa.Global); ok && atomicLocs[loc{global: g}] {
						n++
						s.oblige(fn, "atomic", g.Name(), in.Pos(), false, g.Name()+" is reassigned outside package initialisation while other goroutines access it atomically")
					}
				}
			}
		}
	}
	var names []string
	for l := range atomicLocs {
		if l.global != nil {
			names = append(names, l.global.Name())
		} else {
			names = append(names, l.field)
		}
	}
	sort.Strings(names)
	s.r.notes = append(s.r.notes, "locations accessed with sync/atomic: "+strings.Join(names, ", "))
	return n
}

func sweepOwnership(p *Prog, pc *PropConfig, tags string, r *checkResult) {
	s := &ownSweep{p: p, pc: pc, r: r, names: map[string]int{}, counts: map[string]*FuncReport{}}
	if tags != "" {
		s.suffix = "[" + tags + "]"
	}
	allocRootPkg = p.ModPath
	var anchor *ssa.Function
	for _, fn := range p.AllFns {
		if fn.String() == "(*"+p.ModPath+".Event).write" {
			anchor = fn
		}
	}
	if anchor == nil {
		r.errors = append(r.errors, "ownership sweep: (*Event).write not found")
		return
	}
	c := &Contract{Key: anchor.String(), Kind: "func", Pkg: p.ModPath, Mode: ModeInt, Props: []string{pc.ID}, Loops: map[int]*LoopSpec{}, Flags: map[string]string{}, File: "(sweep ownership)"}
	s.fv = newFuncVC(p, anchor, c)
	s.fv.Name = "zerolog.ownership" + s.suffix
	s.fv.activeProp = pc.ID
	s.fv.replayTemplate = "concurrent"
	n1 := s.checkConsumed()
	n2 := s.checkNoRetain()
	n3 := s.checkAtomics()
	if n1 < 8 || n2 < 8 || n3 < 4 {
		r.errors = append(r.errors, fmt.Sprintf("ownership sweep found only %d consuming calls, %d writer methods, %d atomic accesses (expected at least 8, 8, 4)", n1, n2, n3))
	}
	r.notes = append(r.notes, fmt.Sprintf("ownership sweep [%s]: %d consuming calls, %d Write/WriteLevel methods, %d accesses to atomically used locations", buildName(tags), n1, n2, n3))
	r.trusted["C06: sync.Pool hands an object to one getter at a time; sync.Mutex gives mutual exclusion; sync/atomic operations are atomic (Go memory model)"] = true
	r.trusted["C06: library functions in the `effect noretain trusted/wraps` table do not keep their argument; downstream writers (user code) are responsible for what they are handed"] = true
	r.trusted["C06: no schedules are explored: the obligations establish exclusive ownership, lock and atomic discipline, from which schedule independence is argued (DESIGN C06); data-race freedom of user writers, hooks and marshalers, and of the plain global settings if mutated while logging, is not decided"] = true
	var frs []string
	for n := range s.counts {
		frs = append(frs, n)
	}
	sort.Strings(frs)
	for _, n := range frs {
		r.reports = append(r.reports, *s.counts[n])
	}
}

func (s *ownSweep) backend() string {
	if s.backendName != "" {
		return s.backendName
	}
	return "ssa-dataflow"
}
