package main

import (
	"go/token"
	"strings"

	"golang.org/x/tools/go/ssa"
)

// ghostAppend threads the stream ghosts (g1 = grammar mode, g2 = nesting
// stack) through an append. Implemented in stream.go when the function's
// contract declares a stream; otherwise the ghosts of the result are left
// unconstrained.
func (fv *FuncVC) ghostAppend(r, d, x Term, xv ssa.Value, pos token.Pos) {
	if fv.streamAppend != nil {
		fv.streamAppend(r, d, x, xv, pos)
	}
}

// assumeGlobalInvs: declared invariants of a protected global are assumed
// for its initial symbol.
func (fv *FuncVC) assumeGlobalInvs(g *ssa.Global, t Term) {
	if !fv.P.globalProtected(g) {
		return
	}
	ownInit := isInitFn(fv.Fn) && fv.Fn.Pkg == g.Pkg
	for _, gi := range fv.P.CS.Globals {
		if ownInit && !gi.Assumed {
			continue // init establishes it
		}
		if gi.Pkg != g.Pkg.Pkg.Path() || !mentionsIdent(gi.E, g.Name()) {
			continue
		}
		if fv.inGlobalInv {
			continue
		}
		fv.inGlobalInv = true
		env := fv.newEnv(fv.entry, fv.entry)
		env.pkgOverride = gi.Pkg
		// make the symbol visible before evaluating (avoid recursion)
		fv.entry.globals[g] = t
		cl := &Clause{Kind: "global", Src: gi.Src, File: gi.File, Line: gi.Line}
		fv.assert(env.evalBool(gi.E, cl))
		fv.inGlobalInv = false
		if gi.Assumed {
			fv.trustedUse["configuration assumption: "+strings.TrimSpace(gi.Src)+" (and the setting is not changed while a call runs)"] = true
		} else {
			fv.trustedUse["global invariant "+strings.TrimSpace(gi.Src)+" (checked on init; no other function stores to the variable)"] = true
		}
	}
}

// checkGlobalInvsAtExit: init functions must establish the invariants of the
// globals of their package.
func (fv *FuncVC) checkGlobalInvsAtExit(pos token.Pos) {
	if !isInitFn(fv.Fn) || fv.Fn.Pkg == nil {
		return
	}
	for _, gi := range fv.P.CS.Globals {
		if gi.Pkg != fv.Fn.Pkg.Pkg.Path() || gi.Assumed {
			continue
		}
		env := fv.newEnv(fv.cur, fv.entry)
		cl := &Clause{Kind: "global", Src: gi.Src, File: gi.File, Line: gi.Line}
		t := env.evalBool(gi.E, cl)
		fv.oblige("global-inv", sanitize(gi.Src), gi.Props, pos, t, gi.Src)
	}
}

// applyAxioms asserts the declared axioms (assumptions listed in evidence).
func (fv *FuncVC) applyAxioms() {
	if fv.C == nil {
		return
	}
	use := fv.C.Flags["axioms"]
	if use == "" {
		return
	}
	for _, ax := range fv.P.CS.Axioms {
		tagged := false
		for _, name := range strings.Fields(strings.ReplaceAll(use, ",", " ")) {
			if strings.Contains(ax.Src, name) {
				tagged = true
			}
		}
		if !tagged && use != "all" {
			continue
		}
		env := fv.newEnv(fv.entry, fv.entry)
		cl := &Clause{Kind: "axiom", Src: ax.Src, File: ax.File, Line: ax.Line}
		fv.assert(env.evalBool(ax.E, cl))
		fv.trustedUse["axiom: "+ax.Src] = true
	}
}

func (e *Env) ghostBuiltin(x ECall) (Term, bool) {
	return Term{}, false
}

func isInitFn(f *ssa.Function) bool {
	return f.Name() == "init" || strings.HasPrefix(f.Name(), "init#")
}
