package main

import (
	"fmt"
	"regexp"
	"os"
	"go/token"
	"go/types"
	"sort"
	"strings"

	"golang.org/x/tools/go/ssa"
)

func newFuncVC(p *Prog, fn *ssa.Function, c *Contract) *FuncVC {
	fv := &FuncVC{P: p, Fn: fn, C: c, Name: fn.String(),
		sortSeen: map[string]bool{}, declared: map[string]bool{},
		vals: map[ssa.Value]Val{}, reach: map[*ssa.BasicBlock]string{}, exit: map[*ssa.BasicBlock]*State{},
		edge: map[[2]int]string{}, heapSorts: map[string]Sort{}, tags: map[string]int{}, strConsts: map[string]string{},
		fnIDs: map[*ssa.Function]int{}, loopHeads: map[*ssa.BasicBlock]int{}, loopBody: map[*ssa.BasicBlock][]*ssa.BasicBlock{},
		backEdges: map[[2]int]bool{}, trustedUse: map[string]bool{}, unmodelled: map[string]bool{}, logKeys: map[string][]Sort{},
		escaped: map[*ssa.Alloc]bool{}, params: map[string]Val{}, loopMeasure: map[*ssa.BasicBlock]string{}, sliceOrigins: map[ssa.Value]sliceOrigin{}, ancCache: map[int]map[int]bool{}, closureOnly: map[*ssa.Alloc]bool{}}
	fv.Name = strings.TrimPrefix(strings.Replace(fv.Name, p.ModPath+"/", "", 1), "")
	fv.Name = strings.Replace(fv.Name, p.ModPath+".", "zerolog.", 1)
	if c != nil {
		fv.Mode = c.Mode
		fv.fp = c.Flags["fp"] != ""
	}
	fv.entry = newState()
	return fv
}

// ---------------------------------------------------------------------------
// CFG analysis: back edges, natural loops, reverse post-order

func (fv *FuncVC) analyseCFG() []*ssa.BasicBlock {
	fn := fv.Fn
	// back edge p->h: h dominates p
	for _, b := range fn.Blocks {
		for _, s := range b.Succs {
			if s.Dominates(b) {
				fv.backEdges[[2]int{b.Index, s.Index}] = true
				if _, ok := fv.loopHeads[s]; !ok {
					fv.loopHeads[s] = 0
				}
			}
		}
	}
	var heads []*ssa.BasicBlock
	for h := range fv.loopHeads {
		heads = append(heads, h)
	}
	sort.Slice(heads, func(i, j int) bool { return heads[i].Index < heads[j].Index })
	for i, h := range heads {
		fv.loopHeads[h] = i + 1
		// natural loop body: h plus all nodes that reach a back-edge source without passing h
		in := map[*ssa.BasicBlock]bool{h: true}
		var stack []*ssa.BasicBlock
		for _, p := range h.Preds {
			if fv.backEdges[[2]int{p.Index, h.Index}] && !in[p] {
				in[p] = true
				stack = append(stack, p)
			}
		}
		for len(stack) > 0 {
			b := stack[len(stack)-1]
			stack = stack[:len(stack)-1]
			for _, p := range b.Preds {
				if !in[p] {
					in[p] = true
					stack = append(stack, p)
				}
			}
		}
		var body []*ssa.BasicBlock
		for _, b := range fn.Blocks {
			if in[b] {
				body = append(body, b)
			}
		}
		fv.loopBody[h] = body
	}
	// RPO ignoring back edges
	seen := map[*ssa.BasicBlock]bool{}
	var post []*ssa.BasicBlock
	var dfs func(b *ssa.BasicBlock)
	dfs = func(b *ssa.BasicBlock) {
		seen[b] = true
		for _, s := range b.Succs {
			if fv.backEdges[[2]int{b.Index, s.Index}] || seen[s] {
				continue
			}
			dfs(s)
		}
		post = append(post, b)
	}
	dfs(fn.Blocks[0])
	if fn.Recover != nil && !seen[fn.Recover] {
		// recover block is only reachable through panics; not translated
	}
	var rpo []*ssa.BasicBlock
	for i := len(post) - 1; i >= 0; i-- {
		rpo = append(rpo, post[i])
	}
	return rpo
}

// ---------------------------------------------------------------------------
// Main translation

func (fv *FuncVC) translate() (err error) {
	defer func() {
		if r := recover(); r != nil {
			if u, ok := r.(unsupported); ok {
				err = fmt.Errorf("%s: unsupported: %s", fv.Name, u.msg)
				return
			}
			panic(r)
		}
	}()
	fn := fv.Fn
	if len(fn.Blocks) == 0 {
		return fmt.Errorf("%s: no body", fv.Name)
	}
	fv.ensureSort(SBytes)
	fv.ensureSort(SIface)
	fv.cur = fv.entry
	fv.curReach = "true"
	// ghost allocation counter
	fv.ghostTerm(fv.entry, "mapepoch", SMath) // present in every state from the start, so that joins have it on every side
	a0 := fv.ghostTerm(fv.entry, "alloc", SMath)
	fv.assert(app(">=", a0.S, "0"))
	// parameters
	names := fv.paramNames()
	for i, p := range fn.Params {
		t := fv.freshWF("p_"+p.Name(), p.Type())
		t.Go = p.Type()
		if t.Sort.Kind == KRef {
			fv.assert(app("<=", t.S, fv.entry.ghost["alloc"].S))
		}
		if t.Sort.Kind == KBytes || t.Sort.Kind == KSlice {
			fv.assert(app("<=", fv.baseOf(t), fv.entry.ghost["alloc"].S))
		}
		fv.vals[p] = Val{T: t}
		fv.params[names[i]] = Val{T: t}
	}
	for _, f := range fn.FreeVars {
		// captured variables are pointers to cells
		t := fv.freshWF("fv_"+f.Name(), f.Type())
		t.Go = f.Type()
		if t.Sort.Kind == KRef {
			fv.assert(app(">", t.S, "0"))
		}
		fv.vals[f] = Val{T: t}
		fv.params[f.Name()] = Val{T: t}
	}
	if bn, ok := loadBaselineNames(fv.P.VerifRoot)[fn.String()]; ok && len(bn.FreeVars) == len(fn.FreeVars) {
		// a captured variable renamed since the pinned tree: the contract's name goes to the same position
		for k, old := range bn.FreeVars {
			if _, bound := fv.params[old]; !bound && old != fn.FreeVars[k].Name() {
				fv.params[old] = fv.vals[fn.FreeVars[k]]
				fv.warn("the contract's captured variable %q is bound to %q (same position; renamed since the pinned tree)", old, fn.FreeVars[k].Name())
			}
		}
	}
	fv.applyAxioms()
	fv.streamAxioms()
	fv.setupReplay()
	// preconditions
	if fv.C != nil {
		env := fv.newEnv(fv.entry, fv.entry)
		env.assuming = true
		for _, r := range fv.C.Requires {
			t := env.evalBool(r.E, r)
			fv.assert(t)
		}
	}
	rpo := fv.analyseCFG()
	fv.inBlocks = true
	for _, b := range rpo {
		fv.block(b)
	}
	fv.inBlocks = false
	fv.finishTags()
	fv.fieldInitObligations()
	fv.frameObligations()
	return nil
}

func (fv *FuncVC) paramNames() []string {
	fn := fv.Fn
	var names []string
	if fv.C != nil && len(fv.C.Params) > 0 {
		if len(fv.C.Params) != len(fn.Params) {
			fv.unsupported("contract at %s:%d lists %d parameters, function has %d (receiver included)", fv.C.File, fv.C.Line, len(fv.C.Params), len(fn.Params))
		}
		return fv.C.Params
	}
	for _, p := range fn.Params {
		names = append(names, p.Name())
	}
	return names
}

func (fv *FuncVC) edgeReach(p, b *ssa.BasicBlock) string {
	r, ok := fv.reach[p]
	if !ok {
		return "false"
	}
	c, ok := fv.edge[[2]int{p.Index, b.Index}]
	if !ok {
		c = "true"
	}
	return smtAnd(r, c)
}

func (fv *FuncVC) block(b *ssa.BasicBlock) {
	fv.curBlock = b
	head := fv.loopHeads[b] > 0
	// incoming edges
	type inc struct {
		p    *ssa.BasicBlock
		cond string
		idx  int
	}
	var ins []inc
	for i, p := range b.Preds {
		if fv.backEdges[[2]int{p.Index, b.Index}] {
			continue
		}
		if _, ok := fv.reach[p]; !ok {
			continue
		}
		ins = append(ins, inc{p, fv.edgeReach(p, b), i})
	}
	if b.Index == 0 {
		fv.reach[b] = "true"
		fv.cur = fv.entry.clone()
	} else {
		if len(ins) == 0 {
			return // unreachable
		}
		var rs []string
		for _, in := range ins {
			rs = append(rs, in.cond)
		}
		rname := fmt.Sprintf("R%d", b.Index)
		fv.declare(rname, SBool)
		fv.assert(app("=", rname, smtOr(rs...)))
		fv.reach[b] = rname
		// merge states
		if len(ins) == 1 {
			fv.cur = fv.exit[ins[0].p].clone()
		} else {
			var sts []*State
			var conds []string
			for _, in := range ins {
				sts = append(sts, fv.exit[in.p])
				conds = append(conds, in.cond)
			}
			fv.cur = fv.mergeStates(sts, conds, fmt.Sprintf("b%d", b.Index))
		}
	}
	fv.curReach = fv.reach[b]
	// phis
	var phis []*ssa.Phi
	for _, in := range b.Instrs {
		if ph, ok := in.(*ssa.Phi); ok {
			phis = append(phis, ph)
		} else {
			break
		}
	}
	if head {
		fv.loopHeader(b, phis, func(ph *ssa.Phi) Val {
			// value on entry: merge over non-back edges
			var vs []Val
			var cs []string
			for _, in := range ins {
				vs = append(vs, fv.operand(ph.Edges[in.idx]))
				cs = append(cs, in.cond)
			}
			return fv.mergeVals(vs, cs, "phi0_"+phiName(ph), ph.Type())
		})
	} else {
		for _, ph := range phis {
			var vs []Val
			var cs []string
			for _, in := range ins {
				vs = append(vs, fv.operand(ph.Edges[in.idx]))
				cs = append(cs, in.cond)
			}
			fv.vals[ph] = fv.mergeVals(vs, cs, "phi_"+phiName(ph), ph.Type())
		}
	}
	for _, in := range b.Instrs[len(phis):] {
		fv.instr(in)
	}
	fv.exit[b] = fv.cur
}

func phiName(ph *ssa.Phi) string {
	if ph.Comment != "" {
		return ph.Comment
	}
	return ph.Name()
}

func (fv *FuncVC) mergeVals(vs []Val, conds []string, prefix string, gt types.Type) Val {
	if len(vs) == 1 {
		return vs[0]
	}
	same := true
	for _, v := range vs[1:] {
		if v.LV != nil || vs[0].LV != nil || v.T.S != vs[0].T.S {
			same = false
		}
	}
	if same {
		return vs[0]
	}
	if len(vs[0].Tuple) > 0 {
		fv.unsupported("phi of tuples")
	}
	s := fv.sortOf(gt)
	t := fv.fresh(prefix, s)
	t.Go = gt
	for i, v := range vs {
		tv := fv.asTerm(v, gt)
		fv.assert(smtImp(conds[i], app("=", t.S, tv.S)))
	}
	// a merged sequence (or a sequence field of a merged struct) inherits the prefix/content
	// facts of its incoming values: register the pairs so that lemma instances exist for it too
	fv.mergeWidth = len(vs)
	for _, v := range vs {
		if v.LV != nil {
			continue
		}
		fv.inheritSeqFacts(t, v.T, gt, 0)
	}
	fv.mergeWidth = 0
	return Val{T: t}
}

func (fv *FuncVC) mergeTerm(ts []Term, conds []string, prefix string, arr bool) Term {
	same := true
	for _, t := range ts[1:] {
		if t.S != ts[0].S {
			same = false
		}
	}
	if same {
		return ts[0]
	}
	var t Term
	if arr {
		t = fv.freshHeap(prefix, ts[0].Sort)
	} else {
		fv.nfresh++
		name := fmt.Sprintf("%s!%d", sanitize(prefix), fv.nfresh)
		srt := ts[0].Sort.smt(fv.Mode)
		fv.declared[name] = true
		fv.decls = append(fv.decls, fmt.Sprintf("(declare-const %s %s)", name, srt))
		t = Term{S: name, Sort: ts[0].Sort, Go: ts[0].Go}
	}
	for i, x := range ts {
		fv.assert(smtImp(conds[i], app("=", t.S, x.S)))
	}
	fv.mergeWidth = len(ts)
	defer func() { fv.mergeWidth = 0 }()
	if !arr {
		for _, x := range ts {
			fv.inheritSeqFacts(t, x, x.Go, 0)
		}
	} else if k := ts[0].Sort.Kind; k == KBytes || k == KSlice {
		// heap field holding sequences: the merged field value at each recently written
		// object inherits the facts known about the value written on that branch
		for _, x := range ts {
			// objects about which something is known in the incoming heap
			pre := "(select " + x.S + " "
			seenRef := map[string]bool{}
			for _, q := range append([]pfxPair{}, fv.pfxPairs...) {
				if strings.HasPrefix(q.a.S, pre) && strings.HasSuffix(q.a.S, ")") {
					ref := q.a.S[len(pre) : len(q.a.S)-1]
					if !seenRef[ref] {
						seenRef[ref] = true
						fv.inheritSeqFacts(Term{S: app("select", t.S, ref), Sort: ts[0].Sort}, Term{S: q.a.S, Sort: ts[0].Sort}, nil, 0)
					}
				}
			}
			cur := x.S
			for depth := 0; depth < 4 && strings.HasPrefix(cur, "(store "); depth++ {
				parts := splitTop(cur[7 : len(cur)-1])
				if len(parts) != 3 {
					break
				}
				fv.inheritSeqFacts(Term{S: app("select", t.S, parts[1]), Sort: ts[0].Sort}, Term{S: parts[2], Sort: ts[0].Sort}, nil, 0)
				cur = parts[0]
			}
		}
	}
	return t
}

func (fv *FuncVC) mergeStates(sts []*State, conds []string, tag string) *State {
	n := newState()
	// cells
	cells := map[*ssa.Alloc]bool{}
	for _, s := range sts {
		for k := range s.cells {
			cells[k] = true
		}
	}
	for _, k := range sortedAllocs(cells) {
		var ts []Term
		for _, s := range sts {
			ts = append(ts, fv.lvRoot(s, &LValue{Kind: LAlloc, Alloc: k}))
		}
		n.cells[k] = fv.mergeTerm(ts, conds, "c_"+k.Name()+"_"+tag, false)
	}
	heap := map[string]bool{}
	for _, s := range sts {
		for k := range s.heap {
			heap[k] = true
		}
	}
	for _, k := range sortedKeys(heap) {
		var ts []Term
		for _, s := range sts {
			ts = append(ts, fv.heapTerm(s, k, fv.heapSorts[k]))
		}
		n.heap[k] = fv.mergeTerm(ts, conds, k+"_"+tag, true)
	}
	globals := map[*ssa.Global]bool{}
	for _, s := range sts {
		for k := range s.globals {
			globals[k] = true
		}
	}
	for _, k := range sortedGlobals(globals) {
		var ts []Term
		for _, s := range sts {
			ts = append(ts, fv.globalTerm(s, k))
		}
		n.globals[k] = fv.mergeTerm(ts, conds, "Gl_"+k.Name()+"_"+tag, false)
	}
	ghost := map[string]bool{}
	for _, s := range sts {
		for k := range s.ghost {
			ghost[k] = true
		}
	}
	for _, k := range sortedKeys(ghost) {
		var ts []Term
		for _, s := range sts {
			t, ok := s.ghost[k]
			if !ok {
				t = fv.entry.ghost[k]
			}
			ts = append(ts, t)
		}
		n.ghost[k] = fv.mergeTerm(ts, conds, "G_"+k+"_"+tag, false)
	}
	slices := map[ssa.Value]bool{}
	for _, s := range sts {
		for k := range s.slices {
			slices[k] = true
		}
	}
	for _, k := range sortedValues(slices) {
		var ts []Term
		for _, s := range sts {
			t, ok := s.slices[k]
			if !ok {
				t = fv.vals[k].T
			}
			ts = append(ts, t)
		}
		n.slices[k] = fv.mergeTerm(ts, conds, "sl_"+k.Name()+"_"+tag, false)
	}
	return n
}

// asTerm converts a value to an SMT term of the sort of gt (pointers known
// only as lvalues get an identity).
func (fv *FuncVC) asTerm(v Val, gt types.Type) Term {
	if v.LV == nil {
		return v.T
	}
	lv := v.LV
	switch lv.Kind {
	case LAlloc:
		if len(lv.Path) == 0 {
			if !fv.bindingEscape {
				fv.closureOnly[lv.Alloc] = false
			}
			fv.escaped[lv.Alloc] = true
			name := "addr_" + lv.Alloc.Name()
			fv.declare(name, SRef)
			fv.assert(app("<", name, "0"))
			return Term{S: name, Sort: SRef, Go: gt}
		}
	case LGlobal:
		if len(lv.Path) == 0 {
			name := "addr_global_" + sanitize(lv.Global.Name())
			fv.declare(name, SRef)
			fv.assert(app("<", name, "0"))
			return Term{S: name, Sort: SRef, Go: gt}
		}
	}
	fv.warn("address of %s escapes as a value at %s: identity abstracted", lvString(lv), fv.P.relPos(fv.curPos()))
	t := fv.fresh("addr", SRef)
	t.Go = gt
	return t
}

func lvString(lv *LValue) string {
	switch lv.Kind {
	case LAlloc:
		return "local " + lv.Alloc.Comment
	case LHeap, LCell:
		return "heap " + lv.HKey
	case LGlobal:
		return "global " + lv.Global.Name()
	}
	return "slice element"
}

func (fv *FuncVC) curPos() token.Pos {
	if fv.curBlock != nil {
		for _, in := range fv.curBlock.Instrs {
			if in.Pos().IsValid() {
				return in.Pos()
			}
		}
	}
	return fv.Fn.Pos()
}

// ---------------------------------------------------------------------------
// Operands

func (fv *FuncVC) operand(v ssa.Value) Val {
	switch v := v.(type) {
	case *ssa.Const:
		t := fv.constVal(v)
		t.Go = v.Type()
		return Val{T: t}
	case *ssa.Global:
		return Val{LV: &LValue{Kind: LGlobal, Global: v, Type: v.Type().(*types.Pointer).Elem()}}
	case *ssa.Function:
		return Val{T: fv.fnRef(v)}
	case *ssa.Builtin:
		fv.unsupported("builtin %s used as a value", v.Name())
	}
	if x, ok := fv.vals[v]; ok {
		if o, ok := fv.cur.slices[v]; ok {
			x.T = o
		}
		return x
	}
	fv.unsupported("value %s (%T) used before definition (irreducible control flow?)", v.Name(), v)
	return Val{}
}

func (fv *FuncVC) fnRef(f *ssa.Function) Term {
	id, ok := fv.fnIDs[f]
	if !ok {
		id = len(fv.fnIDs) + 1
		fv.fnIDs[f] = id
	}
	return Term{S: fmt.Sprintf("(- %d)", 1000000+id), Sort: SRef, Go: f.Type()}
}

func (fv *FuncVC) term(v ssa.Value) Term {
	return fv.asTerm(fv.operand(v), v.Type())
}

// ---------------------------------------------------------------------------
// Instructions

func (fv *FuncVC) instr(in ssa.Instruction) {
	if fv.lenient {
		defer func() {
			if r := recover(); r != nil {
				u, ok := r.(unsupported)
				if !ok {
					panic(r)
				}
				// not modelled: demand that it is unreachable, give the result an arbitrary value
				fv.oblige("unmodelled", sanitize(fmt.Sprintf("%T", in)), nil, in.Pos(), "false", "instruction outside the modelled subset must be unreachable here: "+u.msg)
				if v, isVal := in.(ssa.Value); isVal {
					if _, done := fv.vals[v]; !done {
						if tt, isTuple := v.Type().(*types.Tuple); isTuple {
							var vs []Val
							for i := 0; i < tt.Len(); i++ {
								t := fv.freshWF("unm", tt.At(i).Type())
								t.Go = tt.At(i).Type()
								vs = append(vs, Val{T: t})
							}
							fv.vals[v] = Val{Tuple: vs}
						} else {
							t := fv.freshWF("unm", v.Type())
							t.Go = v.Type()
							fv.vals[v] = Val{T: t}
						}
					}
				}
			}
		}()
	}
	fv.instr1(in)
}

func (fv *FuncVC) instr1(in ssa.Instruction) {
	switch in := in.(type) {
	case *ssa.DebugRef:
	case *ssa.Alloc:
		fv.alloc(in)
	case *ssa.BinOp:
		fv.vals[in] = Val{T: fv.binop(in)}
	case *ssa.UnOp:
		fv.unop(in)
	case *ssa.Store:
		fv.storeInstr(in)
	case *ssa.FieldAddr:
		fv.fieldAddr(in)
	case *ssa.Field:
		x := fv.term(in.X)
		si := fv.structInfoOf(in.X.Type())
		if si == nil || si.opaque || x.Sort.Kind != KStruct {
			t := fv.freshWF("field", in.Type())
			t.Go = in.Type()
			fv.vals[in] = Val{T: t}
			return
		}
		f := si.fields[in.Field]
		fv.vals[in] = Val{T: Term{S: app(fmt.Sprintf("S_%s_%s", si.sort.Name, f.Name()), x.S), Sort: si.fsorts[in.Field], Go: in.Type()}}
	case *ssa.IndexAddr:
		fv.indexAddr(in)
	case *ssa.Index:
		fv.index(in)
	case *ssa.Slice:
		fv.sliceInstr(in)
	case *ssa.Call:
		fv.call(in, in.Common(), in)
	case *ssa.Convert:
		fv.convert(in)
	case *ssa.ChangeType:
		v := fv.operand(in.X)
		v.T.Go = in.Type()
		if v.LV == nil {
			ns := fv.sortOf(in.Type())
			if !sameSort(ns, v.T.Sort) {
				fv.unsupported("ChangeType between different sorts %s -> %s", v.T.Sort, ns)
			}
		}
		fv.vals[in] = v
	case *ssa.ChangeInterface:
		v := fv.operand(in.X)
		v.T.Go = in.Type()
		fv.vals[in] = v
	case *ssa.MakeInterface:
		fv.makeInterface(in)
	case *ssa.TypeAssert:
		fv.typeAssert(in)
	case *ssa.Extract:
		t := fv.operand(in.Tuple)
		if in.Index >= len(t.Tuple) {
			fv.unsupported("extract #%d from %d-tuple", in.Index, len(t.Tuple))
		}
		fv.vals[in] = t.Tuple[in.Index]
	case *ssa.MakeSlice:
		fv.makeSlice(in)
	case *ssa.MakeMap, *ssa.MakeChan:
		v := in.(ssa.Value)
		fv.vals[v] = Val{T: fv.newRef("mk", v.Type())}
	case *ssa.MakeClosure:
		for _, b := range in.Bindings {
			if a, ok := b.(*ssa.Alloc); ok {
				if !fv.escaped[a] {
					fv.closureOnly[a] = true
				}
				fv.escaped[a] = true
			}
		}
		t := fv.newRef("closure", in.Type())
		fv.vals[in] = Val{T: t}
	case *ssa.Lookup:
		fv.lookup(in)
	case *ssa.MapUpdate:
		// maps are opaque; what was read before is forgotten
		fv.cur.ghost["mapepoch"] = fv.fresh("G_mapepoch_upd", SMath)
	case *ssa.Range:
		fv.vals[in] = Val{T: fv.fresh("range", SRef)}
		if _, isStr := in.X.Type().Underlying().(*types.Basic); isStr {
			fv.cur.ghost["iter."+in.Name()] = Term{S: "0", Sort: SMath}
		}
	case *ssa.Next:
		fv.next(in)
	case *ssa.Defer:
		fv.defers = append(fv.defers, deferred{guard: fv.curReach, call: in.Common(), pos: in.Pos(), instr: in})
	case *ssa.RunDefers:
		fv.runDefers()
	case *ssa.Go:
		fv.warn("go statement at %s: spawned call not modelled", fv.P.relPos(in.Pos()))
	case *ssa.Send, *ssa.Select:
		fv.unsupported("channel operation at %s", fv.P.relPos(in.Pos()))
	case *ssa.Panic:
		if fv.C != nil && fv.C.Flags["nopanic"] != "" {
			fv.oblige("nopanic", "", nil, in.Pos(), "false", "explicit panic unreachable")
		}
		if fv.C != nil && fv.C.Flags["errorpanic"] != "" && !panicsWithError(in) {
			fv.oblige("errorpanic", "", nil, in.Pos(), "false", "an explicit panic in the decoder carries an error value (so that it becomes the returned error, not a crash)")
		}
	case *ssa.Return:
		fv.ret(in)
	case *ssa.If:
		c := fv.term(in.Cond)
		b := in.Block()
		fv.edge[[2]int{b.Index, b.Succs[0].Index}] = c.S
		if b.Succs[0] != b.Succs[1] {
			fv.edge[[2]int{b.Index, b.Succs[1].Index}] = smtNot(c.S)
		} else {
			fv.edge[[2]int{b.Index, b.Succs[0].Index}] = "true"
		}
		fv.exit[b] = fv.cur
		for i, s := range b.Succs {
			if fv.backEdges[[2]int{b.Index, s.Index}] {
				fv.backEdge(b, s, i)
			}
		}
	case *ssa.Jump:
		b := in.Block()
		fv.exit[b] = fv.cur
		if fv.backEdges[[2]int{b.Index, b.Succs[0].Index}] {
			fv.backEdge(b, b.Succs[0], 0)
		}
	case *ssa.SliceToArrayPointer:
		fv.unsupported("SliceToArrayPointer")
	default:
		fv.unsupported("instruction %T at %s", in, fv.P.relPos(in.Pos()))
	}
}

func (fv *FuncVC) newRef(prefix string, gt types.Type) Term {
	a := fv.ghostTerm(fv.cur, "alloc", SMath)
	r := fv.fresh(prefix, SRef)
	r.Go = gt
	fv.assert(app("=", r.S, app("+", a.S, "1")))
	fv.cur.ghost["alloc"] = Term{S: r.S, Sort: SMath}
	return r
}

func (fv *FuncVC) alloc(in *ssa.Alloc) {
	elem := in.Type().(*types.Pointer).Elem()
	if _, isStruct := elem.Underlying().(*types.Struct); isStruct && in.Heap && !opaqueStruct(elem) {
		r := fv.newRef("new_"+structName(elem), in.Type())
		fv.storeStructRef(fv.cur, r.S, elem, fv.zero(elem))
		fv.vals[in] = Val{T: r}
		return
	}
	fv.cur.cells[in] = fv.zero(elem)
	fv.vals[in] = Val{LV: &LValue{Kind: LAlloc, Alloc: in, Type: elem}}
}

func (fv *FuncVC) fieldAddr(in *ssa.FieldAddr) {
	x := fv.operand(in.X)
	st := in.X.Type().Underlying().(*types.Pointer).Elem()
	if opaqueStruct(st) {
		// address of a field of a library struct: opaque, but a valid address
		oa := fv.fresh("opaqueaddr", SRef)
		fv.assert(app(">", oa.S, "0"))
		fv.vals[in] = Val{T: oa}
		return
	}
	si := fv.structInfoOf(st)
	f := si.fields[in.Field]
	if x.LV != nil {
		lv := *x.LV
		lv.Path = append(append([]pathElem{}, lv.Path...), pathElem{field: in.Field, name: fmt.Sprintf("S_%s_%s", si.sort.Name, f.Name()), stype: si.sort, etype: si.fsorts[in.Field], gotype: st})
		lv.Type = f.Type()
		fv.vals[in] = Val{LV: &lv}
		return
	}
	fv.nilCheck(x.T.S, in.Pos(), "field "+f.Name())
	if g := fv.guardSpec(); g != nil && len(fv.Fn.Params) > 0 && in.X == ssa.Value(fv.Fn.Params[0]) && g.fields[f.Name()] {
		h := fv.heapTerm(fv.cur, "held."+heapKey(st, g.mu), SBool)
		fv.oblige("held", f.Name(), nil, in.Pos(), app("select", h.S, x.T.S), "field "+f.Name()+" is accessed only while "+g.mu+" is held")
	}
	fv.vals[in] = Val{LV: &LValue{Kind: LHeap, Ref: x.T.S, HKey: heapKey(st, f.Name()), HSort: si.fsorts[in.Field], Type: f.Type()}}
}

func (fv *FuncVC) nilCheck(ref string, pos token.Pos, what string) {
	if fv.C != nil && fv.C.Flags["nonil"] != "" {
		return
	}
	if fv.C != nil && fv.C.Flags["nilpanics"] != "" {
		// `flag nilpanics`: a nil dereference is a run-time panic, i.e. an exit without output, not a
		// wrong result; execution continues only if the pointer was not nil
		fv.assume(app("not", app("=", ref, "0")))
		return
	}
	fv.oblige("nil", what, nil, pos, app("not", app("=", ref, "0")), "")
}

func (fv *FuncVC) boundsCheck(idx string, lo string, hi string, pos token.Pos, what string) {
	fv.oblige("bounds", what, nil, pos, smtAnd(fv.ile(lo, idx), fv.ilt(idx, hi)), "")
}

// idxTerm converts an integer-typed SSA value to the index sort (int).
func (fv *FuncVC) idxTerm(v ssa.Value) string {
	t := fv.term(v)
	return fv.convInt(t, SInt).S
}

func (fv *FuncVC) indexAddr(in *ssa.IndexAddr) {
	x := fv.operand(in.X)
	i := fv.idxTerm(in.Index)
	switch xt := in.X.Type().Underlying().(type) {
	case *types.Slice:
		sl := fv.asTerm(x, in.X.Type())
		fv.instantiateAt(fv.arrOf(sl), i)
		fv.boundsCheck(i, fv.ilit(0), fv.lenOf(sl), in.Pos(), "index")
		fv.vals[in] = Val{LV: &LValue{Kind: LElem, Slice: in.X, SliceT: sl, Idx: i, Type: xt.Elem()}}
	case *types.Pointer:
		at := xt.Elem().Underlying().(*types.Array)
		fv.boundsCheck(i, fv.ilit(0), fv.ilit(at.Len()), in.Pos(), "index")
		es := fv.sortOf(at.Elem())
		as := fv.sortOf(xt.Elem())
		var lv LValue
		if x.LV != nil {
			lv = *x.LV
		} else {
			lv = *fv.derefLV(x, in.X.Type())
		}
		lv.Path = append(append([]pathElem{}, lv.Path...), pathElem{field: -1, idx: i, stype: as, etype: es})
		lv.Type = at.Elem()
		fv.vals[in] = Val{LV: &lv}
	default:
		fv.unsupported("IndexAddr on %s", in.X.Type())
	}
}

func (fv *FuncVC) index(in *ssa.Index) {
	x := fv.term(in.X)
	i := fv.idxTerm(in.Index)
	switch xt := in.X.Type().Underlying().(type) {
	case *types.Basic: // string
		fv.instantiateAt(fv.arrOf(x), i)
		fv.boundsCheck(i, fv.ilit(0), fv.lenOf(x), in.Pos(), "index")
		fv.vals[in] = Val{T: fv.namedElem(Term{S: fv.elemAt(x, i), Sort: SByte, Go: in.Type()})}
	case *types.Array:
		fv.boundsCheck(i, fv.ilit(0), fv.ilit(xt.Len()), in.Pos(), "index")
		fv.vals[in] = Val{T: Term{S: app("select", x.S, i), Sort: fv.sortOf(xt.Elem()), Go: in.Type()}}
	default:
		fv.unsupported("Index on %s", in.X.Type())
	}
}

func (fv *FuncVC) sliceInstr(in *ssa.Slice) {
	x := fv.operand(in.X)
	var xt Term
	isStr := false
	var capT string
	switch u := in.X.Type().Underlying().(type) {
	case *types.Slice:
		xt = fv.asTerm(x, in.X.Type())
		capT = fv.capOf(xt)
	case *types.Basic:
		xt = fv.asTerm(x, in.X.Type())
		isStr = true
		capT = fv.lenOf(xt)
	case *types.Pointer:
		// slicing a *[N]T
		at := u.Elem().Underlying().(*types.Array)
		var arr Term
		if x.LV != nil {
			arr = fv.load(fv.cur, x.LV)
		} else {
			arr = fv.load(fv.cur, fv.derefLV(x, in.X.Type()))
		}
		rs := fv.sortOf(in.Type())
		r := fv.fresh("arrslice", rs)
		r.Go = in.Type()
		bref := "0"
		if _, isAlloc := in.X.(*ssa.Alloc); isAlloc {
			bref = fv.newRef("arrbase", in.Type()).S // a fresh array: storage nobody else has
		} else {
			bref = fv.fresh("arrbase", SMath).S
			fv.assert(app(">", bref, "0"))
		}
		fv.assert(smtAnd(app("=", fv.arrOf(r), arr.S), app("=", fv.offOf(r), fv.ilit(0)), app("=", fv.lenOf(r), fv.ilit(at.Len())), app("=", fv.capOf(r), fv.ilit(at.Len())), app("=", fv.baseOf(r), bref)))

		xt = r
		capT = fv.ilit(at.Len())
		fv.warn("slice of array at %s: later writes through the slice are not reflected in the array", fv.P.relPos(in.Pos()))
	default:
		fv.unsupported("Slice on %s", in.X.Type())
	}
	lo := fv.ilit(0)
	if in.Low != nil {
		lo = fv.idxTerm(in.Low)
	}
	hi := fv.lenOf(xt)
	if in.High != nil {
		hi = fv.idxTerm(in.High)
	}
	mx := capT
	if in.Max != nil {
		mx = fv.idxTerm(in.Max)
		fv.oblige("bounds", "slice3", nil, in.Pos(), smtAnd(fv.ile(hi, mx), fv.ile(mx, capT)), "")
	}
	fv.oblige("bounds", "slice", nil, in.Pos(), smtAnd(fv.ile(fv.ilit(0), lo), fv.ile(lo, hi), fv.ile(hi, mx)), "")
	dt := fv.sliceDT(xt.Sort)
	repl := map[string]string{"len": fv.isub(hi, lo), "off": fv.iadd(fv.offOf(xt), lo), "cap": fv.isub(mx, lo)}
	if isStr {
		repl["cap"] = fv.isub(hi, lo)
	}
	if xt.Sort.Kind == KBytes {
		// ghosts: the whole slice keeps them, an emptied slice restarts at TOP, anything else is unknown
		wholeS := smtAnd(app("=", lo, fv.ilit(0)), app("=", hi, fv.lenOf(xt)))
		empty := app("=", hi, fv.ilit(0))
		// o[1:] of an open top-level object with members: its member list
		memb := smtAnd(app("=", lo, fv.ilit(1)), app("=", hi, fv.lenOf(xt)), app("=", app("Bytes_g3", xt.S), "0"),
			app("=", app("Bytes_g1", xt.S), fmt.Sprint(mOBJNEXT)), app("=", app("Bytes_g2", xt.S), "7"))
		ug := fv.fresh("sliceghost", SMath)
		repl["g1"] = fmt.Sprintf("(ite %s %d (ite %s (Bytes_g1 %s) (ite %s %d %s)))", empty, mTOP, wholeS, xt.S, memb, mMEMBERS, ug.S)
		ug2 := fv.fresh("sliceghost", SMath)
		repl["g2"] = fmt.Sprintf("(ite %s 1 (ite %s (Bytes_g2 %s) (ite %s 7 %s)))", empty, wholeS, xt.S, memb, ug2.S)
		ug3 := fv.fresh("sliceghost", SMath)
		repl["g3"] = fmt.Sprintf("(ite %s 0 (ite %s (Bytes_g3 %s) (ite %s 0 %s)))", empty, wholeS, xt.S, memb, ug3.S)
	}
	r := fv.rebuildSlice(xt, repl, dt)
	fv.sliceOrigins[in] = sliceOrigin{base: xt, lo: lo, hi: hi}
	// name the result to keep terms small
	n := fv.fresh("slice", r.Sort)
	n.Go = in.Type()
	fv.assert(app("=", n.S, r.S))
	if sameSort(n.Sort, xt.Sort) {
		fv.assert(smtImp(app("=", lo, fv.ilit(0)), fv.pfx(xt, n)))
	}
	fv.vals[in] = Val{T: n}
}

func (fv *FuncVC) makeSlice(in *ssa.MakeSlice) {
	s := fv.sortOf(in.Type())
	l := fv.idxTerm(in.Len)
	c := fv.idxTerm(in.Cap)
	fv.oblige("bounds", "makeslice", nil, in.Pos(), smtAnd(fv.ile(fv.ilit(0), l), fv.ile(l, c)), "")
	fv.allocSizeCheck(c, in.Pos())
	r := fv.fresh("make", s)
	r.Go = in.Type()
	ref := fv.newRef("mkbase", in.Type())
	et := in.Type().Underlying().(*types.Slice).Elem()
	z := fv.zero(et)
	k := "k"
	ks := idxSort(fv.Mode)
	fv.assert(smtAnd(app("=", fv.lenOf(r), l), app("=", fv.capOf(r), c), app("=", fv.offOf(r), fv.ilit(0)), app("=", fv.baseOf(r), ref.S),
		fmt.Sprintf("(forall ((%s %s)) (= (select %s %s) %s))", k, ks, fv.arrOf(r), k, z.S)))
	if s.Kind == KBytes {
		fv.assert(fv.ghostTop(r.S))
	}
	fv.vals[in] = Val{T: r}
}

// allocSizeCheck is a hook for the allocation-bound obligation (C17).
func (fv *FuncVC) allocSizeCheck(n string, pos token.Pos) {
	if fv.C == nil || fv.C.Flags["allocbound"] == "" {
		return
	}
	if fv.C.Flags["allocbound"] == "scope" {
		// size <= 64 KiB + 2 * (total length of the sequences in scope): memory stays
		// proportional to data already held; computed without overflow
		var lens []string
		cnt := 0
		add := func(t Term) {
			if (t.Sort.Kind == KBytes || t.Sort.Kind == KSlice) && cnt < 16 {
				lens = append(lens, fv.lenOf(t))
				cnt++
			}
		}
		for _, prm := range fv.Fn.Params {
			add(fv.vals[prm].T)
		}
		for _, b := range fv.Fn.Blocks {
			for _, in := range b.Instrs {
				if v, ok := in.(ssa.Value); ok {
					if val, done := fv.vals[v]; done && val.LV == nil && len(val.Tuple) == 0 {
						if _, isCall := in.(*ssa.Call); isCall {
							add(val.T)
						}
					}
				}
			}
		}
		var goal string
		if fv.Mode == ModeBV {
			ext := func(x string) string { return "((_ zero_extend 8) " + x + ")" }
			sum := "(_ bv0 72)"
			for _, l := range lens {
				sum = app("bvadd", sum, ext(l))
			}
			bound := app("bvadd", "(_ bv65536 72)", app("bvadd", sum, sum))
			goal = smtAnd(fv.ile(fv.ilit(0), n), app("bvule", ext(n), bound))
		} else {
			sum := "0"
			for _, l := range lens {
				sum = app("+", sum, l)
			}
			goal = app("<=", n, app("+", "65536", app("*", "2", sum)))
		}
		fv.oblige("allocbound", "", nil, pos, goal, "make size is at most 64 KiB plus twice the total length of the byte sequences already held (memory proportional to input)")
		return
	}
	env := fv.newEnv(fv.cur, fv.entry)
	e, err := parseExpr(fv.C.Flags["allocbound"])
	if err != nil {
		fv.unsupported("bad allocbound flag: %v", err)
	}
	b := env.eval(e)
	bt := env.coerce(b, SInt)
	fv.oblige("allocbound", "", nil, pos, fv.ile(n, bt.S), "make size bounded by "+fv.C.Flags["allocbound"])
}

func (fv *FuncVC) lookup(in *ssa.Lookup) {
	if b, ok := in.X.Type().Underlying().(*types.Basic); ok && b.Info()&types.IsString != 0 {
		x := fv.term(in.X)
		i := fv.idxTerm(in.Index)
		fv.boundsCheck(i, fv.ilit(0), fv.lenOf(x), in.Pos(), "index")
		fv.vals[in] = Val{T: fv.namedElem(Term{S: fv.elemAt(x, i), Sort: SByte, Go: in.Type()})}
		return
	}
	// map lookup: the value (and presence) are functions of the map, the key and a
	// map epoch that is forgotten at every call, loop head and map update, so two
	// reads with nothing in between agree and nothing else is known
	m, k := fv.term(in.X), fv.term(in.Index)
	if in.CommaOk {
		tt := in.Type().(*types.Tuple)
		v := fv.freshWF("mapval", tt.At(0).Type())
		v.Go = tt.At(0).Type()
		ok := fv.fresh("mapok", SBool)
		if g, h, fine := fv.mapFuncs(m, k, v.Sort); fine {
			fv.assert(app("=", v.S, g))
			fv.assert(app("=", ok.S, h))
		}
		fv.vals[in] = Val{Tuple: []Val{{T: v}, {T: ok}}}
		return
	}
	v := fv.freshWF("mapval", in.Type())
	v.Go = in.Type()
	if g, _, fine := fv.mapFuncs(m, k, v.Sort); fine {
		fv.assert(app("=", v.S, g))
	}
	fv.vals[in] = Val{T: v}
}

// mapFuncs: the terms mapget(m, k, epoch) and maphas(m, k, epoch) in the current state.
func (fv *FuncVC) mapFuncs(m, k Term, vs Sort) (string, string, bool) {
	return fv.mapFuncsIn(fv.cur, m, k, vs)
}

func (fv *FuncVC) mapFuncsIn(st *State, m, k Term, vs Sort) (string, string, bool) {
	if m.S == "" || k.S == "" || (vs.Kind != KInt && vs.Kind != KBool) {
		return "", "", false
	}
	ep := fv.ghostTerm(st, "mapepoch", SMath)
	tag := sortTag(vs, fv.Mode) + "_" + sortTag(m.Sort, fv.Mode) + "_" + sortTag(k.Sort, fv.Mode)
	args := []string{m.Sort.smt(fv.Mode), k.Sort.smt(fv.Mode), "Int"}
	fv.declareFun("mapget_"+tag, args, vs.smt(fv.Mode))
	fv.declareFun("maphas_"+tag, args, "Bool")
	return app("mapget_"+tag, m.S, k.S, ep.S), app("maphas_"+tag, m.S, k.S, ep.S), true
}

func (fv *FuncVC) next(in *ssa.Next) {
	tt := in.Type().(*types.Tuple)
	if rg, isRange := in.Iter.(*ssa.Range); isRange && in.IsString && fv.Mode == ModeInt {
		// range over a string: a hidden position (ghost iter.<range>, `rangepos` in invariants) that
		// starts at 0 and advances by the width of the rune at it (1 for an ASCII byte, at most 4)
		s := fv.term(rg.X)
		key := "iter." + rg.Name()
		pos := fv.ghostTerm(fv.cur, key, SMath)
		if !fv.iterInit[key] {
			if fv.iterInit == nil {
				fv.iterInit = map[string]bool{}
			}
			fv.iterInit[key] = true
		}
		ok := Term{S: app("<", pos.S, fv.lenOf(s)), Sort: SBool}
		np := fv.fresh("iterpos", SMath)
		b0 := fv.elemAt(s, pos.S)
		fv.assert(app("=>", ok.S, smtAnd(app(">", np.S, pos.S), app("<=", np.S, fv.lenOf(s)), app("<=", np.S, app("+", pos.S, "4")), app("=>", app("<", b0, "128"), app("=", np.S, app("+", pos.S, "1"))))))
		fv.assert(app("=>", smtNot(ok.S), app("=", np.S, pos.S)))
		fv.assert(app(">=", pos.S, "0"))
		fv.cur.ghost[key] = np
		var rv Val
		if b, isb := tt.At(2).Type().(*types.Basic); !isb || b.Kind() != types.Invalid {
			r := fv.freshWF("next_rune", tt.At(2).Type())
			r.Go = tt.At(2).Type()
			rv = Val{T: r}
		}
		var kv Val
		if b, isb := tt.At(1).Type().(*types.Basic); !isb || b.Kind() != types.Invalid {
			kv = Val{T: Term{S: pos.S, Sort: SInt, Go: types.Typ[types.Int]}}
		}
		fv.vals[in] = Val{Tuple: []Val{{T: ok}, kv, rv}}
		return
	}
	ok := fv.fresh("next_ok", SBool)
	var vs []Val
	vs = append(vs, Val{T: ok})
	for i := 1; i < tt.Len(); i++ {
		t := tt.At(i).Type()
		if b, isb := t.(*types.Basic); isb && b.Kind() == types.Invalid {
			vs = append(vs, Val{})
			continue
		}
		v := fv.freshWF("next", t)
		v.Go = t
		vs = append(vs, Val{T: v})
	}
	fv.vals[in] = Val{Tuple: vs}
}

func (fv *FuncVC) storeInstr(in *ssa.Store) {
	a := fv.operand(in.Addr)
	if fv.inert && (a.LV == nil || a.LV.Kind != LAlloc) {
		fv.oblige("inert", "store", nil, in.Pos(), "false", "no store to shared state on a nil event")
	}
	vt := in.Val.Type()
	v := fv.term(in.Val)
	if os.Getenv("GOVC_DEBUG") != "" {
		fmt.Fprintf(os.Stderr, "store %s <- %s (%T) term %s lv=%v\n", in.Addr, in.Val, in.Val, v.S, a.LV != nil)
	}
	if a.LV != nil {
		fv.store(fv.cur, a.LV, v)
		return
	}
	fv.nilCheck(a.T.S, in.Pos(), "store")
	elem := in.Addr.Type().Underlying().(*types.Pointer).Elem()
	if _, isStruct := elem.Underlying().(*types.Struct); isStruct && !opaqueStruct(elem) {
		fv.storeStructRef(fv.cur, a.T.S, elem, v)
		return
	}
	_ = vt
	fv.store(fv.cur, fv.derefLV(a, in.Addr.Type()), v)
}

func (fv *FuncVC) unop(in *ssa.UnOp) {
	switch in.Op {
	case token.MUL: // load
		a := fv.operand(in.X)
		var t Term
		if a.LV != nil {
			t = fv.load(fv.cur, a.LV)
		} else {
			fv.nilCheck(a.T.S, in.Pos(), "load")
			elem := in.X.Type().Underlying().(*types.Pointer).Elem()
			if _, isStruct := elem.Underlying().(*types.Struct); isStruct && !opaqueStruct(elem) {
				t = fv.loadStructRef(fv.cur, a.T.S, elem)
			} else {
				t = fv.load(fv.cur, fv.derefLV(a, in.X.Type()))
			}
		}
		t.Go = in.Type()
		// name loaded aggregates to keep terms small and attach wf facts; short terms stay as
		// they are so that they match the same expression in contracts textually (triggers)
		if t.Sort.Kind != KBool && len(t.S) < 90 {
			fv.assert(fv.wf(t, in.Type()))
		} else if t.Sort.Kind != KBool {
			n := fv.fresh("ld", t.Sort)
			n.Go = in.Type()
			fv.assert(app("=", n.S, t.S))
			fv.assert(fv.wf(n, in.Type()))
			fv.inheritSeqFacts(n, t, in.Type(), 0)
			t = n
		}
		fv.vals[in] = Val{T: t}
	case token.NOT:
		x := fv.term(in.X)
		fv.vals[in] = Val{T: Term{S: smtNot(x.S), Sort: SBool, Go: in.Type()}}
	case token.SUB:
		x := fv.term(in.X)
		if x.Sort.Kind == KFloat {
			fv.vals[in] = Val{T: fv.floatOp("fneg", in.Type(), x)}
			return
		}
		if fv.Mode == ModeBV {
			fv.vals[in] = Val{T: Term{S: app("bvneg", x.S), Sort: x.Sort, Go: in.Type()}}
			return
		}
		r := Term{S: app("-", x.S), Sort: x.Sort, Go: in.Type()}
		fv.ovfCheck(r, in.Pos(), "neg")
		fv.vals[in] = Val{T: r}
	case token.XOR:
		x := fv.term(in.X)
		if fv.Mode == ModeBV {
			fv.vals[in] = Val{T: Term{S: app("bvnot", x.S), Sort: x.Sort, Go: in.Type()}}
			return
		}
		// ^x == -x-1 (signed), 2^w-1-x (unsigned)
		if x.Sort.Signed {
			fv.vals[in] = Val{T: Term{S: app("-", app("-", x.S), "1"), Sort: x.Sort, Go: in.Type()}}
		} else {
			fv.vals[in] = Val{T: Term{S: app("-", app("-", pow2(x.Sort.W), "1"), x.S), Sort: x.Sort, Go: in.Type()}}
		}
	case token.ARROW:
		t := fv.freshWF("recv", in.Type())
		t.Go = in.Type()
		if in.CommaOk {
			fv.unsupported("channel receive with comma-ok")
		}
		fv.warn("channel receive at %s modelled as an arbitrary value", fv.P.relPos(in.Pos()))
		fv.vals[in] = Val{T: t}
	default:
		fv.unsupported("unary op %s", in.Op)
	}
}

func (fv *FuncVC) ovfCheck(r Term, pos token.Pos, what string) {
	if fv.Mode != ModeInt || r.Sort.Kind != KInt {
		return
	}
	if fv.C != nil && fv.C.Flags["noovf"] != "" {
		return
	}
	fv.oblige("ovf", what, nil, pos, rangeAssume(r.S, r.Sort), "")
}

func (fv *FuncVC) floatOp(name string, rt types.Type, args ...Term) Term {
	rs := fv.sortOf(rt)
	var as, ss []string
	for _, a := range args {
		as = append(as, a.S)
		ss = append(ss, a.Sort.smt(fv.Mode))
	}
	fn := fmt.Sprintf("%s_%s", name, sortTag(rs, fv.Mode))
	for _, a := range args {
		fn += "_" + sortTag(a.Sort, fv.Mode)
	}
	if name == "fmul" && len(args) == 2 && rs.Kind == KFloat {
		// x * 1.0 is x for every IEEE value (NaN, infinities and signed zeros included)
		one := fmt.Sprintf("fconst_%d_1", rs.W)
		if args[1].S == one {
			return Term{S: args[0].S, Sort: rs, Go: rt}
		}
		if args[0].S == one {
			return Term{S: args[1].S, Sort: rs, Go: rt}
		}
	}
	if fv.fp {
		body := ""
		switch name {
		case "fneg":
			body = "(fp.neg x0)"
		case "fadd":
			body = "(fp.add RNE x0 x1)"
		case "fsub":
			body = "(fp.sub RNE x0 x1)"
		case "fmul":
			body = "(fp.mul RNE x0 x1)"
		case "fdiv":
			body = "(fp.div RNE x0 x1)"
		case "fabs":
			body = "(fp.abs x0)"
		case "fconv":
			if rs.Kind == KFloat && len(args) == 1 {
				eb, sb := fpDims(rs.W)
				switch {
				case args[0].Sort.Kind == KFloat:
					body = fmt.Sprintf("((_ to_fp %d %d) RNE x0)", eb, sb)
				case args[0].Sort.Kind == KInt && fv.Mode == ModeInt:
					// int -> float stays an uninterpreted (hence functional) symbol: the
					// solvers do not decide to_fp of a non-constant real; nothing is
					// assumed about the conversion beyond congruence
					_ = eb
					_ = sb
				}
			}
		}
		if body != "" {
			fv.ensureSort(rs)
			for _, a := range args {
				fv.ensureSort(a.Sort)
			}
			fv.fpDefine(fn, ss, rs.smt(fv.Mode), body)
			return Term{S: app(fn, as...), Sort: rs, Go: rt}
		}
	}
	fv.declareFun(fn, ss, rs.smt(fv.Mode))
	return Term{S: app(fn, as...), Sort: rs, Go: rt}
}

func (fv *FuncVC) ret(in *ssa.Return) {
	var res []Val
	for _, r := range in.Results {
		v := fv.operand(r)
		v.T = fv.asTerm(v, r.Type())
		v.LV = nil
		res = append(res, v)
	}
	fv.results = res
	if fv.inert {
		for i, r := range res {
			switch r.T.Sort.Kind {
			case KRef:
				fv.oblige("inert", fmt.Sprintf("result%d", i), nil, in.Pos(), app("=", r.T.S, "0"), "a method on a nil event returns nil")
			case KBool:
				fv.oblige("inert", fmt.Sprintf("result%d", i), nil, in.Pos(), smtNot(r.T.S), "a method on a nil event returns false")
			}
		}
	}
	if fv.C == nil {
		return
	}
	env := fv.newEnv(fv.cur, fv.entry)
	env.bindResults(fv.C, fv.Fn, res)
	assumeUntagged := false
	if r := fv.C.Flags["assumepost"]; r != "" {
		fv.trustedUse["untagged postconditions of "+fv.Name+" are assumed, not proved (safety obligations and property-tagged clauses are still checked): "+r] = true
		assumeUntagged = true
	}
	for _, e := range fv.C.Ensures {
		if assumeUntagged && len(e.Props) == 0 {
			continue
		}
		if e.Assumed {
			fv.trustedUse["assumed postcondition of "+fv.Name+": "+e.Src] = true
			continue
		}
		t := env.evalBool(e.E, e)
		if be, ok := e.E.(EBinary); ok && be.Op == "==>" && fv.curReach != "" {
			// cover: the antecedent can be true at some normal return (else the clause says nothing)
			a := env.evalBool(be.X, e)
			if fv.covers == nil {
				fv.covers = map[*Clause][]string{}
			}
			fv.covers[e] = append(fv.covers[e], smtAnd(fv.curReach, a))
		}
		cs := splitAnd(t)
		for ci, c := range cs {
			d := fmt.Sprint(e.Idx)
			if len(cs) > 1 {
				d = fmt.Sprintf("%d.%d", e.Idx, ci+1)
			}
			fv.oblige("post", d, e.Props, in.Pos(), c, e.Src)
		}
	}
	fv.checkGlobalInvsAtExit(in.Pos())
}

func (fv *FuncVC) finishTags() {
	// nothing yet: distinct tags are distinct integers by construction
}

var _ = strings.TrimSpace

// namedElem names an element read from a sequence and assumes its type range.
func (fv *FuncVC) namedElem(t Term) Term {
	n := fv.fresh("el", t.Sort)
	n.Go = t.Go
	fv.assert(app("=", n.S, t.S))
	fv.assert(fv.wf(n, t.Go))
	return n
}

var reAnchor = regexp.MustCompile(`(^|[ (])p_|_L[0-9]+!|!0([ )]|$)|(^|[ (])ld!`)

func (fv *FuncVC) inheritSeqFacts(dst, src Term, gt types.Type, depth int) {
	switch dst.Sort.Kind {
	case KBytes, KSlice:
		// only facts relative to anchors (parameters, loop-carried values, the entry heap,
		// loaded values) are carried across a merge: those are what invariants and
		// postconditions talk about; carrying every intermediate pair grows quadratically
		for _, q := range append([]pfxPair{}, fv.pfxPairs...) {
			if q.a.S == src.S && sameSort(q.a.Sort, dst.Sort) && reAnchor.MatchString(q.b.S) {
				fv.pfx(dst, q.b)
			}
		}
		if depth >= 0 && fv.mergeWidth <= 4 {
			n := 0
			for _, f := range append([]sfxFact{}, fv.sfxFacts...) {
				if f.a.S == src.S && sameSort(f.a.Sort, dst.Sort) && n < 8 {
					fv.sfx(dst, f.n, f.b)
					n++
				}
			}
			fv.pfx(dst, src)
		}
	case KStruct:
		if depth >= 3 || gt == nil {
			return
		}
		si := fv.structInfoOf(gt)
		if si == nil {
			return
		}
		for i, f := range si.fields {
			k := si.fsorts[i].Kind
			if k != KBytes && k != KSlice && k != KStruct {
				continue
			}
			sel := fmt.Sprintf("S_%s_%s", si.sort.Name, f.Name())
			fv.inheritSeqFacts(Term{S: app(sel, dst.S), Sort: si.fsorts[i], Go: f.Type()}, Term{S: app(sel, src.S), Sort: si.fsorts[i], Go: f.Type()}, f.Type(), depth+1)
		}
	}
}

// panicsWithError: the panic operand is statically an error (or a value
// re-raised from recover()).
func panicsWithError(p *ssa.Panic) bool {
	v := p.X
	for {
		switch x := v.(type) {
		case *ssa.MakeInterface:
			v = x.X
			continue
		case *ssa.ChangeInterface:
			v = x.X
			continue
		}
		break
	}
	if c, ok := v.(*ssa.Call); ok {
		if b, ok := c.Call.Value.(*ssa.Builtin); ok && b.Name() == "recover" {
			return true
		}
	}
	if ph, ok := v.(*ssa.Phi); ok {
		_ = ph
	}
	errT := types.Universe.Lookup("error").Type().Underlying().(*types.Interface)
	return types.Implements(v.Type(), errT)
}

type guardSpec struct {
	mu     string
	fields map[string]bool
	calls  map[string]bool // `flag heldcalls <field>...`: calls on the object in these fields need the lock too
}

// guardSpec parses `flag guarded <mutex field> <field>...`.
func (fv *FuncVC) guardSpec() *guardSpec {
	if fv.C == nil || fv.C.Flags["guarded"] == "" {
		return nil
	}
	f := strings.Fields(fv.C.Flags["guarded"])
	g := &guardSpec{mu: f[0], fields: map[string]bool{}, calls: map[string]bool{}}
	for _, x := range f[1:] {
		g.fields[x] = true
	}
	for _, x := range strings.Fields(fv.C.Flags["heldcalls"]) {
		g.calls[x] = true
	}
	return g
}
