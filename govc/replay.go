package main

import (
	"bytes"
	"encoding/json"
	"flag"
	"fmt"
	"os"
	"os/exec"
	"path/filepath"
	"regexp"
	"strconv"
	"strings"
)

// A contract may carry
//
//	//@ flag replay <template> name=expr name=expr ...
//
// The expressions are evaluated in the function's entry state; their model
// values (from the solver's counterexample) instantiate the Go test template
// /verif/replay/<template>.go.tmpl, which calls the real code and checks the
// property-level oracle. The test is injected with `go test -overlay`, so
// nothing is written into /repo.

type replayArg struct {
	name string
	term Term
}

func (fv *FuncVC) setupReplay() {
	spec := ""
	if fv.C != nil {
		spec = fv.C.Flags["replay"]
	}
	if spec == "" {
		return
	}
	f := strings.Fields(spec)
	fv.replayTemplate = f[0]
	env := fv.newEnv(fv.entry, fv.entry)
	for _, a := range f[1:] {
		i := strings.Index(a, "=")
		if i < 0 {
			fv.unsupported("replay argument %q needs name=expr", a)
		}
		e, err := parseExpr(a[i+1:])
		if err != nil {
			fv.unsupported("replay argument %q: %v", a, err)
		}
		env.cur = &Clause{Kind: "replay", Src: a, File: fv.C.File, Line: fv.C.Line}
		t := env.eval(e)
		if t.Untyped {
			t = env.coerce(t, SInt)
		}
		fv.replayArgs = append(fv.replayArgs, replayArg{a[:i], t})
	}
}

const replayBytesMax = 24

// replayGetValues lists the terms whose model values the replay needs.
func (fv *FuncVC) replayGetValues() []string {
	var ts []string
	for _, a := range fv.replayArgs {
		switch a.term.Sort.Kind {
		case KBytes:
			ts = append(ts, fv.lenOf(a.term))
			for i := 0; i < replayBytesMax; i++ {
				ts = append(ts, fv.elemAt(a.term, fv.ilit(int64(i))))
			}
		case KIface:
			ts = append(ts, app("Iface_tag", a.term.S))
		default:
			ts = append(ts, a.term.S)
		}
	}
	return ts
}

// parseSexprs splits "((a 1) (b (- 2)))" into top-level pair strings.
func parseValuePairs(out string) []string {
	// find the first '(' after the "sat" line
	i := strings.Index(out, "(")
	if i < 0 {
		return nil
	}
	s := out[i:]
	depth := 0
	var pairs []string
	start := -1
	for k := 0; k < len(s); k++ {
		switch s[k] {
		case '(':
			depth++
			if depth == 2 {
				start = k
			}
		case ')':
			if depth == 2 && start >= 0 {
				pairs = append(pairs, s[start:k+1])
				start = -1
			}
			depth--
			if depth == 0 {
				// next get-value answer follows
				rest := s[k+1:]
				return append(pairs, parseValuePairs(rest)...)
			}
		}
	}
	return pairs
}

// splitPair splits "(term value)" at the boundary between the two s-exprs.
func splitPair(p string) (string, string) {
	p = strings.TrimSpace(p)
	p = p[1 : len(p)-1]
	depth := 0
	for i := 0; i < len(p); i++ {
		switch p[i] {
		case '(':
			depth++
		case ')':
			depth--
		case ' ':
			if depth == 0 {
				return p[:i], strings.TrimSpace(p[i+1:])
			}
		}
		if depth == 0 && i+1 < len(p) && p[i] == ')' {
			return p[:i+1], strings.TrimSpace(p[i+1:])
		}
	}
	return p, ""
}

var reBV = regexp.MustCompile(`^\(_ bv(\d+) (\d+)\)$`)

// modelInt parses an SMT value as an integer (bit-vectors as unsigned).
func modelInt(v string) (int64, uint64, bool) {
	v = strings.TrimSpace(v)
	switch {
	case strings.HasPrefix(v, "#x"):
		u, err := strconv.ParseUint(v[2:], 16, 64)
		return int64(u), u, err == nil
	case strings.HasPrefix(v, "#b"):
		u, err := strconv.ParseUint(v[2:], 2, 64)
		return int64(u), u, err == nil
	case reBV.MatchString(v):
		m := reBV.FindStringSubmatch(v)
		u, err := strconv.ParseUint(m[1], 10, 64)
		return int64(u), u, err == nil
	case strings.HasPrefix(v, "(- "):
		n, err := strconv.ParseInt(strings.TrimSuffix(v[3:], ")"), 10, 64)
		return -n, uint64(-n), err == nil
	case v == "true":
		return 1, 1, true
	case v == "false":
		return 0, 0, true
	}
	n, err := strconv.ParseInt(v, 10, 64)
	if err != nil {
		u, err2 := strconv.ParseUint(v, 10, 64)
		return int64(u), u, err2 == nil
	}
	return n, uint64(n), true
}

func signedOf(u uint64, w int) int64 {
	if w >= 64 {
		return int64(u)
	}
	if u&(1<<uint(w-1)) != 0 {
		return int64(u) - (1 << uint(w))
	}
	return int64(u)
}

// renderReplayArgs turns model values into Go literals for the template.
func (fv *FuncVC) renderReplayArgs(out string) (map[string]string, bool) {
	vals := map[string]string{}
	for _, p := range parseValuePairs(out) {
		t, v := splitPair(p)
		vals[strings.Join(strings.Fields(t), " ")] = v
	}
	look := func(term string) (string, bool) {
		v, ok := vals[strings.Join(strings.Fields(term), " ")]
		return v, ok
	}
	res := map[string]string{}
	for _, a := range fv.replayArgs {
		switch a.term.Sort.Kind {
		case KBytes:
			lv, ok := look(fv.lenOf(a.term))
			if !ok {
				return nil, false
			}
			n, _, ok := modelInt(lv)
			if !ok || n < 0 || n > 1<<20 {
				return nil, false
			}
			b := make([]byte, n)
			for i := range b {
				b[i] = 'a'
			}
			for i := 0; i < replayBytesMax && int64(i) < n; i++ {
				ev, ok := look(fv.elemAt(a.term, fv.ilit(int64(i))))
				if !ok {
					continue
				}
				x, _, _ := modelInt(ev)
				b[i] = byte(x)
			}
			res[a.name] = strconv.Quote(string(b))
		case KIface:
			v, ok := look(app("Iface_tag", a.term.S))
			if !ok {
				return nil, false
			}
			n, _, _ := modelInt(v)
			res[a.name] = fmt.Sprint(n != 0) // non-nil?
		case KBool:
			v, ok := look(a.term.S)
			if !ok {
				return nil, false
			}
			res[a.name] = v
		default:
			v, ok := look(a.term.S)
			if !ok {
				return nil, false
			}
			n, u, ok := modelInt(v)
			if !ok {
				return nil, false
			}
			if a.term.Sort.Kind == KInt && fv.Mode == ModeBV {
				if a.term.Sort.Signed {
					res[a.name] = fmt.Sprint(signedOf(u, a.term.Sort.W))
				} else {
					res[a.name] = fmt.Sprint(u)
				}
			} else {
				res[a.name] = fmt.Sprint(n)
			}
		}
	}
	return res, true
}

var rePkgDir = regexp.MustCompile(`(?m)^// pkgdir: (\S+)`)
var reTags = regexp.MustCompile(`(?m)^// tags: (\S+)`)

// runReplayTest injects src as a test file into the package directory and
// runs it. It returns (ran, failed, output).
func runReplayTest(repo, pkgdir, tags, src string) (bool, bool, string) {
	tmp, err := os.MkdirTemp("", "govc-replay-")
	if err != nil {
		return false, false, err.Error()
	}
	defer os.RemoveAll(tmp)
	tf := filepath.Join(tmp, "zz_verif_replay_test.go")
	if err := os.WriteFile(tf, []byte(src), 0o644); err != nil {
		return false, false, err.Error()
	}
	target := filepath.Join(repo, pkgdir, "zz_verif_replay_test.go")
	ov, _ := json.Marshal(map[string]interface{}{"Replace": map[string]string{target: tf}})
	of := filepath.Join(tmp, "overlay.json")
	os.WriteFile(of, ov, 0o644)
	args := []string{"test", "-overlay", of, "-vet=off", "-count=1", "-timeout", "60s", "-run", "TestVerifReplay"}
	if strings.Contains(src, "\n// race: true") {
		args = []string{"test", "-race", "-overlay", of, "-vet=off", "-count=1", "-timeout", "240s", "-run", "TestVerifReplay"}
	}
	if tags != "" {
		args = append(args, "-tags", tags)
	}
	args = append(args, "./"+pkgdir)
	cmd := exec.Command("go", args...)
	cmd.Dir = repo
	cmd.Env = append(os.Environ(), "GOFLAGS=-mod=mod", "GOPROXY=off", "GOSUMDB=off", "GOTOOLCHAIN=local")
	var buf bytes.Buffer
	cmd.Stdout = &buf
	cmd.Stderr = &buf
	err = cmd.Run()
	out := buf.String()
	if len(out) > 6000 {
		out = out[:6000] + "...(truncated)"
	}
	if err == nil {
		if strings.Contains(out, "no tests to run") || strings.Contains(out, "no test files") {
			return false, false, out // the template is excluded from this build: nothing ran
		}
		return true, false, out
	}
	if strings.Contains(out, "--- FAIL") || strings.Contains(out, "panic:") || strings.Contains(out, "WARNING: DATA RACE") {
		return true, true, out
	}
	return false, false, out // build error etc.
}

func tryReplay(verif, prop string, o *Obligation, rf *replayFile) {
	fv := o.fv
	if fv == nil {
		return
	}
	// a clause may name its own template: //@ flag replay@post(4) <template>
	tmplName := fv.replayTemplate
	if fv.C != nil {
		if i := strings.Index(o.Name, "#"); i >= 0 {
			tail := o.Name[i+1:]
			if j := strings.Index(tail, "@"); j >= 0 {
				tail = tail[:j]
			}
			if j := strings.Index(tail, "~"); j >= 0 {
				tail = tail[:j]
			}
			if t := fv.C.Flags["replay@"+tail]; t != "" {
				tmplName = strings.Fields(t)[0]
			}
		}
	}
	propLevel := false
	if t := propReplay[prop]; t != "" && (tmplName == "" || !hasProp(fv.C.Props, prop)) {
		// the contract serves this property through one clause only (or names no template): the
		// property's own argument-less replay decides
		tmplName = t
		propLevel = true
	}
	if tmplName == "" || (o.Res.Verdict != VSat && !o.candidate && fv.replayArgs != nil && !propLevel) {
		return
	}
	args, ok := fv.renderReplayArgs(o.Res.Output)
	if propLevel {
		args, ok = map[string]string{}, true
	}
	if !ok {
		rf.ReplayOut = "model did not give values for all replay inputs"
		return
	}
	tmpl, err := os.ReadFile(filepath.Join(verif, "replay", tmplName+".go.tmpl"))
	if err != nil {
		rf.ReplayOut = err.Error()
		return
	}
	src := string(tmpl)
	for k, v := range args {
		src = strings.ReplaceAll(src, "{{"+k+"}}", v)
	}
	src = strings.ReplaceAll(src, "{{OBLIGATION}}", strconv.Quote(o.Name))
	for _, kv := range strings.Fields(fv.C.Flags["replayconst"]) {
		if i := strings.Index(kv, "="); i > 0 {
			src = strings.ReplaceAll(src, "{{"+kv[:i]+"}}", kv[i+1:])
		}
	}
	pkgdir := "."
	if m := rePkgDir.FindStringSubmatch(src); m != nil {
		pkgdir = m[1]
	}
	tags := fv.P.Tags
	tags = strings.TrimPrefix(strings.TrimPrefix(tags, "verif"), ",")
	rf.ReplayTest = src
	ran, failed, out := runReplayTest(fv.P.Root, pkgdir, tags, src)
	rf.ReplayRan, rf.ReplayFails, rf.ReplayOut = ran, failed, out
	o.replayed = ran && failed
	o.replayPassed = ran && !failed
}

func cmdReplay(args []string) int {
	fs := flag.NewFlagSet("replay", flag.ExitOnError)
	file := fs.String("file", "", "replay file")
	repo := fs.String("repo", "/repo", "repository root")
	fs.String("prop", "", "property id")
	fs.Parse(args)
	data, err := os.ReadFile(*file)
	if err != nil {
		fmt.Fprintln(os.Stderr, err)
		return 2
	}
	var rf replayFile
	if err := json.Unmarshal(data, &rf); err != nil {
		fmt.Fprintln(os.Stderr, err)
		return 2
	}
	fmt.Printf("obligation: %s\nfunction:   %s\nwhere:      %s\nspec:       %s\nverdicts:   %v\n", rf.Obligation, rf.Function, rf.Where, rf.Spec, rf.Verdicts)
	if rf.ReplayTest == "" {
		fmt.Println("no executable replay for this obligation (no-failing-input-found); solver output:")
		fmt.Println(rf.SolverOut)
		return 1
	}
	pkgdir := "."
	if m := rePkgDir.FindStringSubmatch(rf.ReplayTest); m != nil {
		pkgdir = m[1]
	}
	tags := ""
	if m := reTags.FindStringSubmatch(rf.ReplayTest); m != nil {
		tags = m[1]
	}
	ran, failed, out := runReplayTest(*repo, pkgdir, tags, rf.ReplayTest)
	fmt.Println(out)
	if ran && failed {
		fmt.Println("replay: the failing input reproduces on the real code")
		return 1
	}
	if ran {
		fmt.Println("replay: the test passes on the current tree")
		return 0
	}
	fmt.Println("replay: could not run the test")
	return 2
}
