package main

import (
	"go/types"
	"strings"
)

// frameObligations: a contract with an explicit `modifies` clause is only
// usable by callers if the function really stays within it. The inferred
// effect of the body (stores through pointers, transitively through static
// callees; dynamic calls count as writing every field of the module structs
// they receive by pointer) must be covered, field by field.
//
// `pooled T` in a modifies clause covers writes to fields of T objects that
// the function takes from and returns to a sync.Pool itself; callers do not
// see them (they never hold a reference to an object sitting in the pool --
// the ownership obligations of C06 check exactly that).
func (fv *FuncVC) frameObligations() {
	c := fv.C
	if c == nil || !c.HasMod || c.Trusted {
		return
	}
	eff := fv.P.Effects[fv.Fn]
	if eff == nil {
		return
	}
	allowed := map[string]bool{}
	allowAll := false
	for _, m := range c.Modifies {
		switch {
		case m == "heap":
			allowAll = true
		case strings.HasPrefix(m, "pooled "):
			tn := strings.TrimSpace(m[len("pooled "):])
			for k := range fv.P.HeapKeyType {
				if strings.HasSuffix(strings.SplitN(k, ".", 2)[0], "_"+tn) {
					allowed[k] = true
				}
			}
		case strings.HasPrefix(m, "global "), strings.HasPrefix(m, "ghost "):
		default:
			i := strings.Index(m, ".")
			if i < 0 {
				continue
			}
			head, field := m[:i], m[i+1:]
			for pi, pn := range c.Params {
				if pn == head && pi < len(fv.Fn.Params) {
					if pt, ok := fv.Fn.Params[pi].Type().Underlying().(*types.Pointer); ok {
						allowed[heapKey(pt.Elem(), field)] = true
					}
				}
			}
			if k := fv.P.findHeapKey(head, field); k != "" {
				allowed[k] = true
			}
		}
	}
	save := fv.curReach
	fv.curReach = "true"
	for _, k := range sortedKeys(eff.Heap) {
		goal := "false"
		if allowAll || allowed[k] {
			goal = "true"
		}
		if goal == "true" {
			continue
		}
		fv.oblige("frame", k, nil, fv.Fn.Pos(), goal, "the body (or a callee) may write "+k+", which the modifies clause does not list")
	}
	// one summary obligation so that the check is visible even when everything is covered
	fv.oblige("fieldinit", "frame-checked", nil, fv.Fn.Pos(), "true", "every field written by the body is listed in the modifies clause")
	fv.curReach = save
}
