package main

import (
	"fmt"
	"go/token"
	"go/types"
	"sort"
	"strings"

	"golang.org/x/tools/go/ssa"
)

func init() { sweepTable["nonblocking"] = sweepNonblocking }

// sweepNonblocking (C10): diode.Writer.Write must return without waiting for
// the wrapped writer. Effect contract `waits-for nothing that depends on the
// wrapped writer`, checked over the call graph from Write (static calls, and
// interface calls resolved to every module type implementing the interface):
// no mutex/cond/waitgroup wait, no sleep, no channel operation, no call into
// an io.Writer. Also: the consumer loop poll is started exactly once (the `go`
// statement in NewWriter) and called from nowhere else, so deliveries to the
// wrapped writer happen one at a time.
func sweepNonblocking(p *Prog, pc *PropConfig, tags string, r *checkResult) {
	var entry, poll, newWriter *ssa.Function
	for _, fn := range p.AllFns {
		switch fn.String() {
		case "(" + p.ModPath + "/diode.Writer).Write":
			entry = fn
		case "(" + p.ModPath + "/diode.Writer).poll":
			poll = fn
		case p.ModPath + "/diode.NewWriter":
			newWriter = fn
		}
	}
	if entry == nil || poll == nil || newWriter == nil {
		r.errors = append(r.errors, "nonblocking sweep: diode.Writer.Write / poll / NewWriter not found")
		return
	}
	c := &Contract{Key: entry.String(), Kind: "func", Pkg: p.ModPath + "/diode", Mode: ModeInt, Props: []string{pc.ID}, Loops: map[int]*LoopSpec{}, Flags: map[string]string{}, File: "(sweep nonblocking)"}
	fv := newFuncVC(p, entry, c)
	fv.Name = "diode.Writer.Write[nonblocking]"
	fv.activeProp = pc.ID
	fv.curReach = "true"
	fv.replayTemplate = "diode_nonblock"
	blocking := map[string]bool{
		"(*sync.Mutex).Lock": true, "(*sync.RWMutex).Lock": true, "(*sync.RWMutex).RLock": true, "(*sync.Cond).Wait": true,
		"(*sync.WaitGroup).Wait": true, "time.Sleep": true, "(*sync.Once).Do": true,
	}
	// implementations of interface methods inside the module
	impls := func(recv types.Type, name string) []*ssa.Function {
		it, ok := recv.Underlying().(*types.Interface)
		if !ok {
			return nil
		}
		var out []*ssa.Function
		for _, f := range p.AllFns {
			if f.Name() != name || f.Signature.Recv() == nil || !p.inModule(f) || len(f.Blocks) == 0 {
				continue
			}
			if types.Implements(f.Signature.Recv().Type(), it) {
				out = append(out, f)
			}
		}
		// methods promoted from embedded interfaces (Poller embeds Diode): the wrapper is synthetic; follow the
		// field's interface type to its implementations as well
		return out
	}
	seen := map[*ssa.Function]bool{}
	var visit func(f *ssa.Function, path []string)
	nCalls := 0
	nLoops := 0
	visit = func(f *ssa.Function, path []string) {
		if seen[f] || len(path) > 12 {
			return
		}
		seen[f] = true
		here := append(append([]string{}, path...), shortFn(f))
		// no spin-wait: every way round a loop makes progress of its own -- it passes an atomic
		// read-modify-write that always takes effect (Add/Swap: a fresh position is claimed), or the loop
		// is a range loop. A loop that only re-reads shared state (Load, failed CompareAndSwap) waits for
		// another goroutine -- in the diode, for the consumer, hence for the wrapped writer.
		for _, h := range f.Blocks {
			isHeader := false
			for _, q := range h.Preds {
				if h.Dominates(q) {
					isHeader = true
				}
			}
			if !isHeader {
				continue
			}
			ranged := false
			for _, in := range h.Instrs {
				if ph, ok := in.(*ssa.Phi); ok && ph.Comment == "rangeindex" {
					ranged = true
				}
			}
			progress := func(b *ssa.BasicBlock) bool {
				for _, in := range b.Instrs {
					if c, ok := in.(*ssa.Call); ok {
						if g := c.Call.StaticCallee(); g != nil && g.Pkg != nil && g.Pkg.Pkg.Path() == "sync/atomic" && (strings.HasPrefix(g.Name(), "Add") || strings.HasPrefix(g.Name(), "Swap")) {
							return true
						}
					}
				}
				return false
			}
			// can the header reach itself through blocks it dominates without passing a progress block?
			spin := false
			seenB := map[*ssa.BasicBlock]bool{}
			var walk func(b *ssa.BasicBlock)
			walk = func(b *ssa.BasicBlock) {
				if spin || seenB[b] || !h.Dominates(b) || progress(b) {
					return
				}
				seenB[b] = true
				for _, sx := range b.Succs {
					if sx == h {
						spin = true
						return
					}
					walk(sx)
				}
			}
			if !progress(h) {
				seenB[h] = true
				for _, sx := range h.Succs {
					if sx == h {
						spin = true
					}
					walk(sx)
				}
			}
			nLoops++
			if spin && !ranged {
				fv.oblige("nonblocking", "spin-loop", nil, h.Instrs[0].Pos(), "false", "a loop in "+shortFn(f)+" can go round without an atomic read-modify-write of its own: it waits for another goroutine (reachable from Writer.Write via "+strings.Join(here, " -> ")+")")
			}
		}
		for _, b := range f.Blocks {
			for _, in := range b.Instrs {
				switch x := in.(type) {
				case *ssa.Send, *ssa.Select:
					fv.oblige("nonblocking", "channel-op", nil, in.Pos(), "false", "channel operation reachable from Writer.Write via "+strings.Join(here, " -> "))
				case *ssa.UnOp:
					if x.Op == token.ARROW {
						fv.oblige("nonblocking", "channel-receive", nil, in.Pos(), "false", "channel receive reachable from Writer.Write via "+strings.Join(here, " -> "))
					}
				case ssa.CallInstruction:
					if _, isGo := in.(*ssa.Go); isGo {
						continue
					}
					cc := x.Common()
					nCalls++
					if cc.IsInvoke() {
						rt := types.TypeString(cc.Value.Type(), nil)
						if cc.Method.Name() == "Write" && (rt == "io.Writer" || strings.HasSuffix(rt, "LevelWriter")) {
							fv.oblige("nonblocking", "writer-call", nil, in.Pos(), "false", "call into an io.Writer reachable from Writer.Write via "+strings.Join(here, " -> "))
							continue
						}
						for _, g := range impls(cc.Value.Type(), cc.Method.Name()) {
							visit(g, here)
						}
						continue
					}
					g := cc.StaticCallee()
					if g == nil {
						continue
					}
					if blocking[g.String()] {
						fv.oblige("nonblocking", sanitize(g.String()), nil, in.Pos(), "false", g.String()+" reachable from Writer.Write via "+strings.Join(here, " -> "))
						continue
					}
					if p.inModule(g) && len(g.Blocks) > 0 {
						visit(g, here)
					}
				}
			}
		}
	}
	visit(entry, nil)
	// promoted Set of Poller (embedded Diode): resolve through ManyToOne explicitly
	for _, f := range p.AllFns {
		if f.String() == "(*"+p.ModPath+"/diode/internal/diodes.ManyToOne).Set" || f.String() == "(*"+p.ModPath+"/diode/internal/diodes.Waiter).Set" {
			visit(f, []string{"(Writer).Write", "diodeFetcher.Set"})
		}
	}
	var names []string
	for f := range seen {
		names = append(names, shortFn(f))
	}
	sort.Strings(names)
	// poll is started once and never called
	starts, calls := 0, 0
	for _, f := range p.AllFns {
		if !p.inModule(f) {
			continue
		}
		for _, b := range f.Blocks {
			for _, in := range b.Instrs {
				ci, ok := in.(ssa.CallInstruction)
				if !ok || ci.Common().StaticCallee() != poll {
					continue
				}
				if _, isGo := in.(*ssa.Go); isGo && f == newWriter {
					starts++
				} else {
					calls++
				}
			}
		}
	}
	goal := "false"
	if starts == 1 && calls == 0 {
		goal = "true"
	}
	fv.oblige("fieldinit", "single-consumer", nil, poll.Pos(), goal, fmt.Sprintf("poll is started by exactly one go statement in NewWriter (found %d) and called from nowhere else (found %d): one consumer, deliveries one at a time", starts, calls))
	fv.oblige("fieldinit", "callgraph-checked", nil, entry.Pos(), "true", fmt.Sprintf("%d call sites and %d loops in %d functions reachable from Writer.Write checked: %s", nCalls, nLoops, len(seen), strings.Join(names, ", ")))
	if len(seen) < 3 {
		r.errors = append(r.errors, "nonblocking sweep reached fewer than 3 functions")
	}
	r.fvs = append(r.fvs, fv)
	r.trusted["log.Println (collision message) writes to stderr and does not depend on the wrapped writer; sync.Cond.Broadcast and sync.Pool.Get do not block"] = true
}
