package main

import (
	"fmt"
	"sort"
	"strings"

	"golang.org/x/tools/go/ssa"
)

func init() { sweepTable["proxycover"] = sweepProxyCover }

// sweepProxyCover (C18): the status/bytes view of the response-writer proxies
// is proved method by method; a method that sends something to the wrapped
// writer without a contract would bypass the view altogether. Obligation:
// every function of package hlog/internal/mutil that invokes a method on an
// interface value other than the read-only / pass-through ones (Header, Flush,
// Hijack, CloseNotify, Push, Unwrap) is under a C18 contract.
func sweepProxyCover(p *Prog, pc *PropConfig, tags string, r *checkResult) {
	s := &ownSweep{p: p, pc: pc, r: r, names: map[string]int{}, counts: map[string]*FuncReport{}, backendName: "ssa-contract-matching"}
	passThrough := map[string]bool{"Header": true, "Flush": true, "Hijack": true, "CloseNotify": true, "Push": true, "Unwrap": true}
	var fns []*ssa.Function
	for _, fn := range p.AllFns {
		if len(fn.Blocks) == 0 || !p.inModule(fn) || fn.Synthetic != "" {
			continue
		}
		pk := fn.Package()
		if pk == nil || !strings.HasSuffix(pk.Pkg.Path(), "/hlog/internal/mutil") || strings.HasSuffix(p.Fset.Position(fn.Pos()).Filename, "_test.go") {
			continue
		}
		fns = append(fns, fn)
	}
	sort.Slice(fns, func(i, j int) bool { return fns[i].String() < fns[j].String() })
	if len(fns) == 0 {
		r.errors = append(r.errors, "proxycover: package hlog/internal/mutil not found")
		return
	}
	c := &Contract{Key: fns[0].String(), Kind: "func", Pkg: p.ModPath, Mode: ModeInt, Props: []string{pc.ID}, Loops: map[int]*LoopSpec{}, Flags: map[string]string{}, File: "(sweep proxycover)"}
	s.fv = newFuncVC(p, fns[0], c)
	s.fv.Name = "mutil.proxycover"
	s.fv.activeProp = pc.ID
	s.fv.replayTemplate = "hlog_access"
	n := 0
	for _, fn := range fns {
		var sends []string
		for _, b := range fn.Blocks {
			for _, in := range b.Instrs {
				if cl, ok := in.(ssa.CallInstruction); ok && cl.Common().IsInvoke() {
					if m := cl.Common().Method.Name(); !passThrough[m] {
						sends = append(sends, m)
					}
				}
			}
		}
		if len(sends) == 0 {
			continue
		}
		n++
		ct := p.CS.ByKey[fn.String()]
		ok := ct != nil && hasProp(ct.Props, pc.ID)
		why := fmt.Sprintf("%s calls %s on the wrapped writer and is under a C18 contract", shortFn(fn), strings.Join(sends, ", "))
		if !ok {
			why = fmt.Sprintf("%s calls %s on the wrapped writer but has no C18 contract: what it sends is not reflected in the proxy's status/bytes view", shortFn(fn), strings.Join(sends, ", "))
		}
		s.oblige(fn, "proxycover", "sends", fn.Pos(), ok, why)
	}
	if n < 3 {
		r.errors = append(r.errors, fmt.Sprintf("proxycover: only %d sending methods found in hlog/internal/mutil (expected at least 3)", n))
	}
	r.notes = append(r.notes, fmt.Sprintf("proxycover sweep: %d functions of hlog/internal/mutil send through the wrapped writer", n))
	for _, fr := range s.counts {
		r.reports = append(r.reports, *fr)
	}
}
