package main

import (
	"bytes"
	"context"
	"fmt"
	"go/types"
	"os"
	"os/exec"
	"strings"
	"sync"
	"time"
)

// ---------------------------------------------------------------------------
// Sorts

type SortKind int

const (
	KBool SortKind = iota
	KInt           // Go integer (W bits, Signed); SMT Int in int mode, BitVec W in bv mode
	KBytes         // []byte or string
	KSlice         // other slices (Elem)
	KRef           // pointer / map / chan / func: identity as Int, nil == 0
	KIface         // interface value: datatype Iface(tag, ref)
	KStruct        // struct value: datatype Name
	KFloat         // float32/float64: uninterpreted sort
	KOpaque        // anything else: uninterpreted sort Name
	KTuple         // multi-result (never an SMT term)
	KArray         // fixed-size Go array [N]T: SMT array Idx -> Elem
	KMath          // mathematical integer (ghost counters): SMT Int in both modes
)

type Sort struct {
	Kind   SortKind
	W      int
	Signed bool
	Name   string // struct datatype name / opaque sort name
	Elem   *Sort
	N      int64 // array length
}

var (
	SBool  = Sort{Kind: KBool}
	SInt   = Sort{Kind: KInt, W: 64, Signed: true}
	SByte  = Sort{Kind: KInt, W: 8}
	SBytes = Sort{Kind: KBytes}
	SRef   = Sort{Kind: KRef}
	SIface = Sort{Kind: KIface}
	SMath  = Sort{Kind: KMath}
)

type Mode int

const (
	ModeInt Mode = iota
	ModeBV
)

func (m Mode) String() string {
	if m == ModeBV {
		return "bv"
	}
	return "int"
}

func (s Sort) String() string {
	switch s.Kind {
	case KBool:
		return "bool"
	case KInt:
		if s.Signed {
			return fmt.Sprintf("int%d", s.W)
		}
		return fmt.Sprintf("uint%d", s.W)
	case KBytes:
		return "bytes"
	case KSlice:
		return "[]" + s.Elem.String()
	case KRef:
		return "ref"
	case KMath:
		return "mathint"
	case KIface:
		return "iface"
	case KStruct:
		return "struct " + s.Name
	case KFloat:
		return fmt.Sprintf("float%d", s.W)
	case KOpaque:
		return "opaque " + s.Name
	case KArray:
		return fmt.Sprintf("[%d]%s", s.N, s.Elem.String())
	}
	return "tuple"
}

// smt returns the SMT-LIB sort for s in mode m.
func (s Sort) smt(m Mode) string {
	switch s.Kind {
	case KBool:
		return "Bool"
	case KInt:
		if m == ModeBV {
			return fmt.Sprintf("(_ BitVec %d)", s.W)
		}
		return "Int"
	case KBytes:
		return "Bytes"
	case KSlice:
		return "Slice_" + sortTag(*s.Elem, m)
	case KRef, KMath:
		return "Int"
	case KIface:
		return "Iface"
	case KStruct:
		return "S_" + s.Name
	case KFloat:
		return fmt.Sprintf("GoF%d", s.W)
	case KOpaque:
		return "O_" + s.Name
	case KArray:
		return fmt.Sprintf("(Array %s %s)", idxSort(m), s.Elem.smt(m))
	}
	panic("no smt sort for " + s.String())
}

func idxSort(m Mode) string {
	if m == ModeBV {
		return "(_ BitVec 64)"
	}
	return "Int"
}

func sortTag(s Sort, m Mode) string {
	r := s.smt(m)
	r = strings.NewReplacer("(", "", ")", "", " ", "_").Replace(r)
	return r
}

func sameSort(a, b Sort) bool {
	if a.Kind != b.Kind {
		return false
	}
	switch a.Kind {
	case KInt:
		return a.W == b.W && a.Signed == b.Signed
	case KSlice:
		return sameSort(*a.Elem, *b.Elem)
	case KStruct, KOpaque:
		return a.Name == b.Name
	case KFloat:
		return a.W == b.W
	case KArray:
		return a.N == b.N && sameSort(*a.Elem, *b.Elem)
	}
	return true
}

// ---------------------------------------------------------------------------
// Terms

type Term struct {
	S    string
	Sort Sort
	Go   types.Type // Go type when known (needed for field resolution in contracts)
	// Untyped is set for integer literals in contract expressions: they adopt
	// the sort of the other operand.
	Untyped bool
	Lit     int64
}

func app(f string, args ...string) string {
	if len(args) == 0 {
		return f
	}
	return "(" + f + " " + strings.Join(args, " ") + ")"
}

func smtAnd(xs ...string) string {
	var ys []string
	for _, x := range xs {
		if x == "true" {
			continue
		}
		if x == "false" {
			return "false"
		}
		ys = append(ys, x)
	}
	if len(ys) == 0 {
		return "true"
	}
	if len(ys) == 1 {
		return ys[0]
	}
	return app("and", ys...)
}

func smtOr(xs ...string) string {
	var ys []string
	for _, x := range xs {
		if x == "false" {
			continue
		}
		if x == "true" {
			return "true"
		}
		ys = append(ys, x)
	}
	if len(ys) == 0 {
		return "false"
	}
	if len(ys) == 1 {
		return ys[0]
	}
	return app("or", ys...)
}

func smtNot(x string) string {
	if x == "true" {
		return "false"
	}
	if x == "false" {
		return "true"
	}
	return app("not", x)
}

func smtImp(a, b string) string {
	if a == "true" {
		return b
	}
	if a == "false" || b == "true" {
		return "true"
	}
	return app("=>", a, b)
}

// intLit renders integer v of sort s in mode m.
func intLit(v int64, s Sort, m Mode) string {
	if m == ModeBV {
		w := s.W
		if w == 0 {
			w = 64
		}
		var u uint64 = uint64(v)
		if w < 64 {
			u &= (uint64(1) << uint(w)) - 1
		}
		return fmt.Sprintf("(_ bv%d %d)", u, w)
	}
	if v < 0 {
		return fmt.Sprintf("(- %d)", -v)
	}
	return fmt.Sprintf("%d", v)
}

func uintLit(v uint64, s Sort, m Mode) string {
	if m == ModeBV {
		w := s.W
		if w < 64 {
			v &= (uint64(1) << uint(w)) - 1
		}
		return fmt.Sprintf("(_ bv%d %d)", v, w)
	}
	return fmt.Sprintf("%d", v)
}

func pow2(w int) string {
	// decimal 2^w for w <= 64
	if w < 63 {
		return fmt.Sprintf("%d", int64(1)<<uint(w))
	}
	if w == 63 {
		return "9223372036854775808"
	}
	return "18446744073709551616"
}

// rangeAssume returns the constraint that x (an Int) lies in the range of s.
func rangeAssume(x string, s Sort) string {
	if s.Kind != KInt {
		return "true"
	}
	if s.Signed {
		return fmt.Sprintf("(and (<= (- %s) %s) (< %s %s))", pow2(s.W-1), x, x, pow2(s.W-1))
	}
	return fmt.Sprintf("(and (<= 0 %s) (< %s %s))", x, x, pow2(s.W))
}

// ---------------------------------------------------------------------------
// Solver racing

type Verdict int

const (
	VUnsat Verdict = iota
	VSat
	VUnknown
)

func (v Verdict) String() string {
	return [...]string{"unsat", "sat", "unknown"}[v]
}

type SolveResult struct {
	Verdict Verdict
	Solver  string
	Time    float64
	Output  string // raw output of the deciding solver (model if sat)
	All     map[string]string
}

type solverSpec struct {
	name string
	args func(file string, timeoutS int) []string
	pre  string // text put before the query
}

var solvers = []solverSpec{
	{"z3-new", func(f string, t int) []string { return []string{"z3-new", fmt.Sprintf("-T:%d", t), f} }, ""},
	{"z3", func(f string, t int) []string { return []string{"z3", fmt.Sprintf("-T:%d", t), f} }, ""},
	{"cvc5", func(f string, t int) []string {
		return []string{"cvc5", "--lang=smt2", fmt.Sprintf("--tlimit=%d", t*1000), "--produce-models", f}
	}, ""},
}

var scratchDir string
var scratchOnce sync.Once

func scratch() string {
	scratchOnce.Do(func() {
		d, err := os.MkdirTemp("", "govc-")
		if err != nil {
			panic(err)
		}
		scratchDir = d
	})
	return scratchDir
}

func cleanupScratch() {
	if scratchDir != "" {
		os.RemoveAll(scratchDir)
	}
}

var queryCounter int
var queryMu sync.Mutex

// solve races the installed solvers on query; the first definite answer wins.
// When all is true every solver is asked and a sat/unsat disagreement is
// reported as an error.
func solve(query string, timeoutS int, all bool, useCvc5 bool) (SolveResult, error) {
	queryMu.Lock()
	queryCounter++
	id := queryCounter
	queryMu.Unlock()
	file := fmt.Sprintf("%s/q%d.smt2", scratch(), id)
	if err := os.WriteFile(file, []byte(query), 0o644); err != nil {
		return SolveResult{}, err
	}
	defer os.Remove(file)
	type one struct {
		name string
		v    Verdict
		out  string
		t    float64
	}
	ctx, cancel := context.WithCancel(context.Background())
	defer cancel()
	ch := make(chan one, len(solvers))
	n := 0
	for _, sp := range solvers {
		if sp.name == "cvc5" && !useCvc5 {
			continue
		}
		n++
		go func(sp solverSpec) {
			t0 := time.Now()
			a := sp.args(file, timeoutS)
			cmd := exec.CommandContext(ctx, a[0], a[1:]...)
			var buf bytes.Buffer
			cmd.Stdout = &buf
			cmd.Stderr = &buf
			cmd.Run()
			out := buf.String()
			first := strings.TrimSpace(strings.SplitN(out, "\n", 2)[0])
			if strings.HasPrefix(first, "(error") && !strings.Contains(first, "model is not available") {
				first = "error"
			}
			v := VUnknown
			switch first {
			case "unsat":
				v = VUnsat
			case "sat":
				v = VSat
			}
			ch <- one{sp.name, v, out, time.Since(t0).Seconds()}
		}(sp)
	}
	res := SolveResult{Verdict: VUnknown, All: map[string]string{}}
	got := 0
	nerr := 0
	decided := false
	var errDis error
	for got < n {
		o := <-ch
		got++
		res.All[o.name] = strings.TrimSpace(strings.SplitN(o.out, "\n", 2)[0])
		if strings.HasPrefix(res.All[o.name], "(error") {
			nerr++
		}
		if o.v != VUnknown {
			if decided && res.Verdict != o.v {
				errDis = fmt.Errorf("solver disagreement: %s says %s, %s says %s", res.Solver, res.Verdict, o.name, o.v)
			}
			if !decided {
				decided = true
				res.Verdict, res.Solver, res.Time, res.Output = o.v, o.name, o.t, o.out
				if !all {
					cancel()
					return res, nil
				}
				// cross-check window: the other solvers get a few more seconds to agree or disagree,
				// not their full budget (a solver that only times out adds nothing)
				grace := 3 * time.Second
				if d := time.Duration(o.t*2) * time.Second; d > grace {
					grace = d
				}
				if grace > 15*time.Second {
					grace = 15 * time.Second
				}
				go func() {
					select {
					case <-time.After(grace):
						cancel()
					case <-ctx.Done():
					}
				}()
			}
		} else if !decided {
			res.Output = o.out
			res.Time = o.t
		}
	}
	if !decided && nerr == n {
		return res, fmt.Errorf("every solver rejected the query: %s", strings.TrimSpace(strings.SplitN(res.Output, "\n", 2)[0]))
	}
	return res, errDis
}

// splitAnd returns the top-level conjuncts of an SMT term.
func splitAnd(t string) []string {
	t = strings.TrimSpace(t)
	if strings.HasPrefix(t, "(=> ") {
		// distribute an implication over the conjuncts of its consequent
		parts := splitTop(t[4 : len(t)-1])
		if len(parts) == 2 && strings.HasPrefix(parts[1], "(and ") {
			var out []string
			for _, c := range splitAnd(parts[1]) {
				out = append(out, "(=> "+parts[0]+" "+c+")")
			}
			return out
		}
		return []string{t}
	}
	if !strings.HasPrefix(t, "(and ") {
		return []string{t}
	}
	body := t[5 : len(t)-1]
	var out []string
	depth := 0
	start := 0
	for i := 0; i < len(body); i++ {
		switch body[i] {
		case '(':
			depth++
		case ')':
			depth--
		case ' ':
			if depth == 0 {
				if p := strings.TrimSpace(body[start:i]); p != "" {
					out = append(out, splitAnd(p)...)
				}
				start = i + 1
			}
		}
	}
	if p := strings.TrimSpace(body[start:]); p != "" {
		out = append(out, splitAnd(p)...)
	}
	return out
}

func splitTop(body string) []string {
	var out []string
	depth, start := 0, 0
	for i := 0; i < len(body); i++ {
		switch body[i] {
		case '(':
			depth++
		case ')':
			depth--
		case ' ':
			if depth == 0 {
				if p := strings.TrimSpace(body[start:i]); p != "" {
					out = append(out, p)
				}
				start = i + 1
			}
		}
	}
	if p := strings.TrimSpace(body[start:]); p != "" {
		out = append(out, p)
	}
	return out
}

// selStore builds (select h i), resolving it syntactically when h is a chain
// of stores whose innermost matching index is textually i: the normal form
// lets lemma instances (which are matched by text) line up.
func selStore(h, i string) string {
	cur := strings.TrimSpace(h)
	for strings.HasPrefix(cur, "(store ") {
		parts := splitTop(cur[7 : len(cur)-1])
		if len(parts) != 3 {
			break
		}
		if parts[1] == i {
			return parts[2]
		}
		// a different index text may still denote the same object: stop here
		break
	}
	return app("select", h, i)
}
