#!/bin/bash
# usage: evalbenign.sh <prop>   -- runs the related checks on each behaviour-preserving patch of /tmp/benign_store/<prop>
export GOFLAGS=-mod=mod GOPROXY=off GOSUMDB=off GOTOOLCHAIN=local
cd /verif
p=$1
case $p in
  C01) rel="C01 C02 C03";; C02) rel="C02 C01 C08";; C03) rel="C03 C01 C04";; C04) rel="C04 C03 C13";; C05) rel="C05 C03";;
  C06) rel="C06 C15 C07";; C09) rel="C09 C08";; C10) rel="C10 C11";; C13) rel="C13 C04";; C14) rel="C14 C06";; C15) rel="C15 C06";;
  C17) rel="C17 C08";; C18) rel="C18";; C19) rel="C19 C03";; *) rel=$p;;
esac
for i in 1 2 3 4; do
  d=/tmp/benign_store/$p/${p}_b$i; [ -f $d/patch.diff ] || continue
  wt=/tmp/evalb_${p}_$i
  git -C /repo worktree remove --force $wt >/dev/null 2>&1
  git -C /repo worktree add --detach $wt HEAD >/dev/null 2>&1
  if ! git -C $wt apply $d/patch.diff 2>/dev/null; then echo "${p}_b$i APPLY-FAIL"; git -C /repo worktree remove --force $wt; continue; fi
  for q in $rel; do
    out=$(./bin/govc check -prop $q -repo $wt -noevidence 2>&1)
    nv=$(echo "$out" | grep -c "^VIOLATION")
    ne=$(echo "$out" | grep -c "^CHECK-ERROR")
    echo "${p}_b$i $q violations=$nv errors=$ne"
    echo "$out" | grep "^VIOLATION\|^CHECK-ERROR" | sed 's/replay=[^ ]* //' | cut -c1-260 | head -6 | sed 's/^/    /'
  done
  git -C /repo worktree remove --force $wt >/dev/null 2>&1
done
echo finished $p
