#!/bin/bash
# usage: runtemplate.sh <template-name> [tags] [repo]   -- runs an argument-less replay template against the working tree
export GOFLAGS=-mod=mod GOPROXY=off GOSUMDB=off GOTOOLCHAIN=local
t=$1; tags=${2:-}; repo=${3:-/repo}
d=$(mktemp -d /tmp/rt.XXXXXX)
sed 's/{{OBLIGATION}}/"manual"/' /verif/replay/$t.go.tmpl > $d/zz_verif_replay_test.go
pkgdir=$(sed -n 's,^// pkgdir: ,,p' $d/zz_verif_replay_test.go | head -1); pkgdir=${pkgdir:-.}
printf '{"Replace":{"%s/%s/zz_verif_replay_test.go":"%s/zz_verif_replay_test.go"}}' "$repo" "$pkgdir" "$d" > $d/ov.json
(cd $repo/$pkgdir && go test -overlay $d/ov.json -vet=off -timeout 120s -count=1 -tags "$tags" -run 'TestVerifReplay$' . 2>&1 | tail -25)
rm -rf $d
