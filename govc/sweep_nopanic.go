package main

import (
	"fmt"
	"go/constant"
	"go/token"
	"go/types"
	"path/filepath"
	"strings"

	"golang.org/x/tools/go/ssa"
)

func init() { sweepTable["nopanic"] = sweepNopanic }

// nopanicFiles: the files whose functions must be total (C17).
var nopanicFiles = map[string][]string{
	"C17": {"internal/cbor/decode_stream.go"},
}

// sweepNopanic: zero-annotation safety sweep. Every function defined in the
// listed files is translated with machine arithmetic and *no* precondition
// (results of callees without contract are arbitrary values of their type),
// and every index, slice, make, division, shift, conversion, nil dereference
// and unchecked type assertion gets a safety obligation. An explicit
// panic(v) is an allowed exit iff v is an error value (that is what
// Cbor2JsonManyObjects turns into its result); a runtime.Error can therefore
// only come from a failed safety obligation. Every make() must also stay
// within the allocation bound (default 64 KiB; a contract may state another
// bound with `flag allocbound`).
//
// Counting loops get the inductive invariant "counter >= start" inferred from
// their shape and checked like a written invariant.
func sweepNopanic(p *Prog, pc *PropConfig, tags string, r *checkResult) {
	files := nopanicFiles[pc.ID]
	n := 0
	for _, fn := range p.AllFns {
		if len(fn.Blocks) == 0 || !p.inModule(fn) {
			continue
		}
		pos := p.Fset.Position(fn.Pos())
		rel, _ := filepath.Rel(p.Root, pos.Filename)
		hit := false
		for _, f := range files {
			if rel == f {
				hit = true
			}
		}
		if !hit {
			continue
		}
		c := p.CS.ByKey[fn.String()]
		if c == nil {
			c = &Contract{Key: fn.String(), Kind: "func", Pkg: fn.Package().Pkg.Path(), Mode: ModeBV, Props: []string{pc.ID}, Loops: map[int]*LoopSpec{}, Flags: map[string]string{}, File: "(sweep nopanic)"}
		} else {
			cc := *c
			c = &cc
			if !hasProp(c.Props, pc.ID) {
				c.Props = append(append([]string{}, c.Props...), pc.ID)
			}
		}
		if c.Flags["allocbound"] == "" {
			c.Flags["allocbound"] = "scope"
		}
		c.Flags["errorpanic"] = "1"
		if c.Flags["replay"] == "" {
			c.Flags["replay"] = "cbor_decode_total"
		}
		// API precondition of the sweep: pointer and interface parameters are not nil
		for i, prm := range fn.Params {
			switch prm.Type().Underlying().(type) {
			case *types.Pointer, *types.Interface:
				name := prm.Name()
				if len(c.Params) > i {
					name = c.Params[i]
				}
				if e, err := parseExpr(name + " != nil"); err == nil {
					c.Requires = append(append([]*Clause{}, c.Requires...), &Clause{Kind: "requires", E: e, Src: name + " != nil   (sweep: parameters are valid objects)", File: "(sweep nopanic)", Idx: 900 + i})
				}
			}
		}
		fv := newFuncVC(p, fn, c)
		if tags != "" {
			fv.Name += "[" + tags + "]"
		}
		fv.Name += "[safety]"
		fv.activeProp = pc.ID
		fv.inferCounters = true
		fv.safetyOnly = true
		if err := fv.translate(); err != nil {
			if p.CS.ByKey[fn.String()] == nil {
				r.errors = append(r.errors, err.Error())
				continue
			}
			// the written contract no longer fits the function (a name it mentions is gone): the safety
			// sweep itself needs no annotation, so fall back to the bare function (loops then rely on the
			// inferred counter invariants only); the functional contract is the business of its own property
			bare := &Contract{Key: fn.String(), Kind: "func", Pkg: fn.Package().Pkg.Path(), Mode: ModeBV, Props: []string{pc.ID}, Loops: map[int]*LoopSpec{}, Flags: map[string]string{"allocbound": "scope", "errorpanic": "1", "replay": "cbor_decode_total"}, File: "(sweep nopanic, contract dropped: " + err.Error() + ")"}
			bare.Requires = c.Requires[len(c.Requires)-countSweepRequires(c):]
			fv = newFuncVC(p, fn, bare)
			if tags != "" {
				fv.Name += "[" + tags + "]"
			}
			fv.Name += "[safety]"
			fv.activeProp = pc.ID
			fv.inferCounters = true
			fv.safetyOnly = true
			if err2 := fv.translate(); err2 != nil {
				r.errors = append(r.errors, err2.Error())
				continue
			}
			r.notes = append(r.notes, "nopanic: the contract of "+fn.String()+" does not apply to the current body ("+err.Error()+"); safety obligations generated without it")
		}
		var keep []*Obligation
		for _, o := range fv.obls {
			switch o.Kind {
			case "post", "pre":
				// functional clauses of an existing contract are not part of this sweep
			case "inv-init", "inv-keep":
				// a loop invariant tagged for other properties only is proved by their checks and merely
				// assumed here; untagged invariants (the ones safety needs) are proved here as well
				if o.clauseTagged && !hasProp(o.Props, pc.ID) {
					continue
				}
				keep = append(keep, o)
			default:
				keep = append(keep, o)
			}
		}
		fv.obls = keep
		fv.inputFrameObligations()
		fv.addProbes()
		r.fvs = append(r.fvs, fv)
		n++
	}
	r.notes = append(r.notes, fmt.Sprintf("nopanic sweep: %d functions of %s", n, strings.Join(files, ", ")))
	if n == 0 {
		r.errors = append(r.errors, "nopanic sweep matched no function")
	}
}

func countSweepRequires(c *Contract) int {
	n := 0
	for _, r := range c.Requires {
		if r.File == "(sweep nopanic)" {
			n++
		}
	}
	return n
}

// inferCounterInvariants adds `phi >= c` for header phis of the shape
// phi(c, phi + d) with constants c and d > 0.
func (fv *FuncVC) inferCounterInvariants(h *ssa.BasicBlock) []*Clause {
	var out []*Clause
	for _, in := range h.Instrs {
		ph, ok := in.(*ssa.Phi)
		if !ok {
			break
		}
		b, ok := ph.Type().Underlying().(*types.Basic)
		if !ok || b.Info()&types.IsInteger == 0 {
			continue
		}
		// the counter must be bounded by the loop test itself: header ends in `if phi < n` / `if phi+1 < n`
		bounded := false
		plus1 := false
		if iff, ok := h.Instrs[len(h.Instrs)-1].(*ssa.If); ok {
			if cmp, ok := iff.Cond.(*ssa.BinOp); ok && cmp.Op == token.LSS {
				if cmp.X == ssa.Value(ph) {
					bounded = true
				}
				if add, ok := cmp.X.(*ssa.BinOp); ok && add.Op == token.ADD && add.X == ssa.Value(ph) {
					if c, isC := add.Y.(*ssa.Const); isC && c.Value != nil && c.Int64() == 1 {
						bounded = true
						plus1 = true
					}
				}
			}
		}
		if !bounded {
			continue
		}
		var start *int64
		okShape := true
		for _, e := range ph.Edges {
			switch e := e.(type) {
			case *ssa.Const:
				if e.Value == nil || e.Value.Kind() != constant.Int {
					okShape = false
					break
				}
				v := e.Int64()
				if start != nil && *start != v {
					okShape = false
				}
				start = &v
			case *ssa.BinOp:
				c, isC := e.Y.(*ssa.Const)
				if e.Op != token.ADD || e.X != ssa.Value(ph) || !isC || c.Value == nil || c.Int64() != 1 {
					okShape = false
				}
			default:
				okShape = false
			}
		}
		if !okShape || start == nil {
			continue
		}
		// start <= counter, and the counter never runs past the bound it is tested against
		src := fmt.Sprintf("%s >= %d && (%s <= loopbound || %s == %d)", phiName(ph), *start, phiName(ph), phiName(ph), *start)
		if plus1 {
			src = fmt.Sprintf("%s >= %d && (%s < loopbound || %s == %d)", phiName(ph), *start, phiName(ph), phiName(ph), *start)
		}
		e, err := parseExpr(src)
		if err != nil {
			continue
		}
		out = append(out, &Clause{Kind: "invariant", E: e, Src: src + "   (inferred from the loop shape)", File: "(inferred)", Idx: 90 + len(out)})
	}
	return out
}

// inputFrameObligations (prefix stability, C17): a decoder function touches
// its input only through ReadByte / Peek / UnreadByte of the *bufio.Reader it
// was given (or by handing the reader to another function of the same file),
// and reads no mutable package state other than the output-format settings.
// The text produced before the read position reaches k is then a function of
// the first k input bytes only.
var inputFrameReaderOps = map[string]bool{"ReadByte": true, "Peek": true, "UnreadByte": true}
var inputFrameGlobals = map[string]bool{"decodeTimeZone": true, "IntegerTimeFieldFormat": true, "NanoTimeFieldFormat": true}

func (fv *FuncVC) inputFrameObligations() {
	isReader := func(t types.Type) bool {
		return types.TypeString(t, nil) == "*bufio.Reader"
	}
	file := fv.P.Fset.Position(fv.Fn.Pos()).Filename
	save := fv.curReach
	saveB := fv.inBlocks
	fv.curReach, fv.inBlocks = "true", false
	defer func() { fv.curReach, fv.inBlocks = save, saveB }()
	nChecked := 0
	for _, b := range fv.Fn.Blocks {
		for _, in := range b.Instrs {
			switch in := in.(type) {
			case ssa.CallInstruction:
				cc := in.Common()
				touches := false
				for _, a := range cc.Args {
					if isReader(a.Type()) {
						touches = true
					}
				}
				if !touches {
					continue
				}
				nChecked++
				ok := false
				if f := cc.StaticCallee(); f != nil {
					if f.Signature.Recv() != nil && isReader(f.Signature.Recv().Type()) && inputFrameReaderOps[f.Name()] {
						ok = true
					}
					if fv.P.inModule(f) && fv.P.Fset.Position(f.Pos()).Filename == file {
						ok = true
					}
				}
				if !ok {
					what := "dynamic call"
					if f := cc.StaticCallee(); f != nil {
						what = f.String()
					}
					fv.oblige("inputframe", sanitize(what), nil, in.Pos(), "false", "the input reader is used only through ReadByte/Peek/UnreadByte or passed to a decoder function: "+what)
				}
			case *ssa.UnOp:
				if g, isG := in.X.(*ssa.Global); isG && in.Op == token.MUL && g.Pkg == fv.Fn.Package() {
					nChecked++
					if !inputFrameGlobals[g.Name()] {
						fv.oblige("inputframe", "global_"+g.Name(), nil, in.Pos(), "false", "decoder output depends only on the input and the format settings, not on package variable "+g.Name())
					}
				}
			case *ssa.Store:
				if g, isG := in.Addr.(*ssa.Global); isG {
					fv.oblige("inputframe", "store_"+g.Name(), nil, in.Pos(), "false", "decoder functions do not write package variables")
				}
			}
		}
	}
	fv.oblige("fieldinit", "inputframe-checked", nil, fv.Fn.Pos(), "true", fmt.Sprintf("%d reader uses / package-variable reads checked against the input frame", nChecked))
}
