package main

import (
	"fmt"
	"go/token"
	"go/types"
	"strings"

	"golang.org/x/tools/go/ssa"
)

// Stream ghosts. Every []byte/string value carries three ghost integers:
//   g1 = grammar mode at the end of the buffer, g2 = nesting stack, g3 = string-lexer state.
// They are a function of the whole buffer content read from an empty buffer
// (mode TOP). The generator advances them at every append:
//   - a chunk of statically known length is run through the byte-level JSON
//     automaton below, for all values of its (possibly symbolic) bytes;
//   - the constant chunks null/true/false are one VALUE token;
//   - a chunk of unknown length is accepted (a) inside a string when it is a
//     clean run (plain ASCII bytes and runes accepted by utf8.DecodeRune),
//     (b) as a VALUE token when it is a whole buffer holding one complete
//     value, (c) as the member list o[1:] of an open object buffer o;
//   - anything else sends the mode to MERR, which no contract accepts.
// In the binary_log build only the token-level rules (b), (c) apply; literal
// chunks leave the ghosts unconstrained (CBOR leaf encoders carry token-level
// postconditions justified by their byte-level head/payload postconditions).

const (
	mERR = iota
	mTOP
	mOBJFIRST
	mOBJNEXT
	mOBJCOMMA
	mKEYSTR
	mAFTERKEYSTR
	mAFTERKEY
	mARRFIRST
	mARRNEXT
	mARRCOMMA
	mVALSTROBJ
	mVALSTRARR
	mVALSTRTOP
	mDONE
	mDONENL
	mLISTCOMMA
	mLISTNEXT
	mVALSTRLIST
	mMEMBERS // ghost of o[1:] for an open top-level object buffer o with at least one member
)

var ghostConsts = map[string]int64{
	"MERR": mERR, "TOP": mTOP, "OBJ_FIRST": mOBJFIRST, "OBJ_NEXT": mOBJNEXT, "OBJ_COMMA": mOBJCOMMA, "KEYSTR": mKEYSTR,
	"AFTER_KEYSTR": mAFTERKEYSTR, "AFTER_KEY": mAFTERKEY, "ARR_FIRST": mARRFIRST, "ARR_NEXT": mARRNEXT, "ARR_COMMA": mARRCOMMA,
	"VALSTR_OBJ": mVALSTROBJ, "VALSTR_ARR": mVALSTRARR, "VALSTR_TOP": mVALSTRTOP, "DONE": mDONE, "DONE_NL": mDONENL, "LIST_COMMA": mLISTCOMMA, "LIST_NEXT": mLISTNEXT, "VALSTR_LIST": mVALSTRLIST,
	"MEMBERS": mMEMBERS, "STK_EMPTY": 1, "STK_OBJ": 7, "LEX_OUT": 0, "LEX_NORMAL": 1, "LEX_ESC": 2, "LEX_ERR": 99,
}

func (fv *FuncVC) cborBuild() bool { return strings.Contains(fv.P.Tags, "binary_log") }

func (fv *FuncVC) streamPrelude() []string {
	ghostOnly := []string{
		"(declare-fun poolowned (Int) Bool)",
		"(define-fun aftervalue ((m Int)) Int (ite (= m 7) 3 (ite (or (= m 8) (= m 10)) 9 (ite (= m 1) 14 (ite (= m 16) 17 0)))))",
		"(define-fun afterstr ((m Int)) Int (ite (= m 5) 6 (ite (= m 11) 3 (ite (= m 12) 9 (ite (= m 13) 14 (ite (= m 18) 17 0))))))",
		"(define-fun openstr ((m Int)) Int (ite (or (= m 2) (= m 4)) 5 (ite (= m 7) 11 (ite (or (= m 8) (= m 10)) 12 (ite (= m 1) 13 (ite (= m 16) 18 0))))))",
		"(define-fun valuepos ((m Int)) Bool (or (= m 7) (= m 8) (= m 10) (= m 1) (= m 16)))",
		"(define-fun closemode ((s Int)) Int (ite (= (mod s 4) 0) 3 (ite (= (mod s 4) 1) 9 (ite (= (mod s 4) 2) 17 14))))",
		"(define-fun pushstk ((m Int) (s Int)) Int (+ (* 4 s) (ite (= m 7) 0 (ite (= m 16) 2 (ite (= m 1) 3 1)))))",
	}
	if fv.cborBuild() {
		// CBOR element lists have no separators: after the first element the list is in DONE / LIST_NEXT
		ghostOnly[len(ghostOnly)-1] = "(define-fun pushstk ((m Int) (s Int)) Int (+ (* 4 s) (ite (= m 7) 0 (ite (or (= m 16) (= m 14) (= m 17)) 2 (ite (= m 1) 3 1)))))"
	}
	if fv.Mode != ModeInt {
		at := fmt.Sprintf("(Array %s %s)", idxSort(fv.Mode), SByte.smt(fv.Mode))
		return append(ghostOnly, fmt.Sprintf("(declare-fun cleanrun (%s %s %s) Bool)", at, idxSort(fv.Mode), idxSort(fv.Mode)),
			fmt.Sprintf("(declare-fun validrune (%s %s %s) Bool)", at, idxSort(fv.Mode), idxSort(fv.Mode)))
	}
	return append(ghostOnly, []string{
		"(define-fun ishex ((b Int)) Bool (or (and (<= 48 b) (<= b 57)) (and (<= 97 b) (<= b 102)) (and (<= 65 b) (<= b 70))))",
		"(define-fun iscont ((b Int)) Bool (and (<= 128 b) (<= b 191)))",
		"(define-fun plainbyte ((b Int)) Bool (and (<= 32 b) (< b 128) (not (= b 34)) (not (= b 92))))",
		`(define-fun lexstep ((l Int) (b Int)) Int
  (ite (= l 1) (ite (= b 34) 0 (ite (= b 92) 2 (ite (< b 32) 99 (ite (< b 128) 1 (ite (< b 194) 99 (ite (<= b 223) 7 (ite (= b 224) 10 (ite (= b 237) 11 (ite (<= b 239) 8 (ite (= b 240) 12 (ite (<= b 243) 9 (ite (= b 244) 13 99))))))))))))
  (ite (= l 2) (ite (or (= b 34) (= b 92) (= b 47) (= b 98) (= b 102) (= b 110) (= b 114) (= b 116)) 1 (ite (= b 117) 3 99))
  (ite (and (<= 3 l) (<= l 6)) (ite (ishex b) (ite (= l 6) 1 (+ l 1)) 99)
  (ite (= l 7) (ite (iscont b) 1 99)
  (ite (= l 8) (ite (iscont b) 7 99)
  (ite (= l 9) (ite (iscont b) 8 99)
  (ite (= l 10) (ite (and (<= 160 b) (<= b 191)) 7 99)
  (ite (= l 11) (ite (and (<= 128 b) (<= b 159)) 7 99)
  (ite (= l 12) (ite (and (<= 144 b) (<= b 191)) 8 99)
  (ite (= l 13) (ite (and (<= 128 b) (<= b 143)) 8 99) 99)))))))))))`,
		`(define-fun jlex ((m Int) (s Int) (l Int) (b Int)) Int
  (ite (= l 0) (ite (and (= b 34) (not (= (openstr m) 0))) 1 0) (lexstep l b)))`,
		`(define-fun jmode ((m Int) (s Int) (l Int) (b Int)) Int
  (ite (not (= l 0)) (let ((nl (lexstep l b))) (ite (= nl 99) 0 (ite (= nl 0) (afterstr m) m)))
  (ite (= b 34) (openstr m)
  (ite (= b 123) (ite (valuepos m) 2 0)
  (ite (= b 91) (ite (valuepos m) 8 0)
  (ite (= b 125) (ite (or (= m 2) (= m 3)) (closemode s) 0)
  (ite (= b 93) (ite (or (= m 8) (= m 9)) (closemode s) 0)
  (ite (= b 44) (ite (= m 3) 4 (ite (= m 9) 10 (ite (or (= m 14) (= m 17)) 16 0)))
  (ite (= b 58) (ite (= m 6) 7 0)
  (ite (= b 10) (ite (= m 14) 15 0) 0))))))))))`,
		`(define-fun jstk ((m Int) (s Int) (l Int) (b Int)) Int
  (ite (not (= l 0)) s
  (ite (or (= b 123) (= b 91)) (+ (* 4 s) (ite (= m 7) 0 (ite (= m 16) 2 (ite (= m 1) 3 1))))
  (ite (or (= b 125) (= b 93)) (div s 4) s))))`,
		fmt.Sprintf("(declare-fun cleanrun ((Array Int Int) Int Int) Bool)"),
		fmt.Sprintf("(declare-fun validrune ((Array Int Int) Int Int) Bool)"),
	}...)
}

func (fv *FuncVC) ghostTop(name string) string {
	return smtAnd(app("=", app("Bytes_g1", name), fmt.Sprint(mTOP)), app("=", app("Bytes_g2", name), "1"), app("=", app("Bytes_g3", name), "0"))
}

type sliceOrigin struct {
	base   Term
	lo, hi string
}

func (fv *FuncVC) setupStream() {
	if fv.C == nil || fv.C.Mode != ModeInt {
		return
	}
	fv.streamAppend = fv.doStreamAppend
}

// cleanrun axioms, asserted for functions that declare `flag stream`.
func (fv *FuncVC) streamAxioms() {
	if fv.C == nil || fv.C.Flags["stream"] == "" || fv.Mode != ModeInt || fv.cborBuild() {
		return
	}
	fv.ensureSort(SBytes)
	fv.assert("(forall ((a (Array Int Int)) (i Int)) (! (cleanrun a i i) :pattern ((cleanrun a i i))))")
	fv.assert("(forall ((a (Array Int Int)) (i Int) (j Int)) (! (=> (and (cleanrun a i j) (plainbyte (select a j))) (cleanrun a i (+ j 1))) :pattern ((cleanrun a i j))))")
	fv.assert("(forall ((a (Array Int Int)) (i Int) (j Int) (n Int)) (! (=> (and (cleanrun a i j) (validrune a j n)) (cleanrun a i (+ j n))) :pattern ((cleanrun a i j) (validrune a j n))))")
	fv.trustedUse["stream: a run of plain ASCII bytes and of runes accepted by utf8.DecodeRune keeps the JSON string lexer in its normal state (plain-byte half is checked as lemma json#lemma(plainbyte); the rune half is the trusted link to unicode/utf8)"] = true
}

func (fv *FuncVC) doStreamAppend(r, d, x Term, xv ssa.Value, pos token.Pos) {
	g1 := func(t Term) string { return app("Bytes_g1", t.S) }
	g2 := func(t Term) string { return app("Bytes_g2", t.S) }
	g3 := func(t Term) string { return app("Bytes_g3", t.S) }
	set := func(m, s, l string) {
		fv.assert(smtAnd(app("=", g1(r), m), app("=", g2(r), s), app("=", g3(r), l)))
	}
	if n, ok := constLenOf(xv); ok && n <= 64 {
		if fv.cborBuild() {
			return // ghosts of literal CBOR chunks are not derived from bytes
		}
		if c, isConst := xv.(*ssa.Const); isConst {
			switch constantString(c) {
			case "null", "true", "false":
				set(fmt.Sprintf("(ite (= %s 0) (aftervalue %s) 0)", g3(d), g1(d)), g2(d), g3(d))
				return
			}
		}
		m, s, l := g1(d), g2(d), g3(d)
		for i := int64(0); i < n; i++ {
			b := fv.elemAt(x, fv.ilit(i))
			// name intermediate states to keep terms linear
			nm := fv.fresh("gm", SMath)
			ns := fv.fresh("gs", SMath)
			nl := fv.fresh("gl", SMath)
			fv.assert(smtAnd(app("=", nm.S, app("jmode", m, s, l, b)), app("=", ns.S, app("jstk", m, s, l, b)), app("=", nl.S, app("jlex", m, s, l, b))))
			m, s, l = nm.S, ns.S, nl.S
		}
		set(m, s, l)
		return
	}
	// chunk of unknown length
	inString := "false"
	if !fv.cborBuild() {
		inString = smtAnd(app("=", g3(d), "1"), app("cleanrun", fv.arrOf(x), fv.offOf(x), fv.iadd(fv.offOf(x), fv.lenOf(x))))
	}
	whole := smtAnd(app("=", g3(d), "0"), app("=", g3(x), "0"), app("=", g1(x), fmt.Sprint(mDONE)), app("=", g2(x), "1"))
	list := smtAnd(app("=", g3(d), "0"), app("=", g3(x), "0"), app("=", g1(x), fmt.Sprint(mLISTNEXT)), app("=", g2(x), "1"), app("=", g1(d), fmt.Sprint(mARRFIRST)))
	members := smtAnd(app("=", g3(d), "0"), app("=", g3(x), "0"), app("=", g1(x), fmt.Sprint(mMEMBERS)), app("=", g2(x), "7"),
		smtOr(app("=", g1(d), fmt.Sprint(mOBJFIRST)), app("=", g1(d), fmt.Sprint(mOBJCOMMA)), func() string {
			if fv.cborBuild() {
				return app("=", g1(d), fmt.Sprint(mOBJNEXT)) // CBOR maps have no separators
			}
			return "false"
		}()))
	vm := "(aftervalue " + g1(d) + ")"
	if fv.cborBuild() {
		vm = fv.cborAfterValue(g1(d))
	}
	// copying a buffer into an empty one keeps the source's ghosts
	intoEmpty := smtAnd(app("=", fv.lenOf(d), fv.ilit(0)), app("=", g1(d), fmt.Sprint(mTOP)), app("=", g2(d), "1"), app("=", g3(d), "0"))
	set(fmt.Sprintf("(ite %s %s (ite %s %s (ite %s %s (ite %s %d (ite %s %d 0)))))", intoEmpty, g1(x), inString, g1(d), whole, vm, members, mOBJNEXT, list, mARRNEXT),
		fmt.Sprintf("(ite %s %s %s)", intoEmpty, g2(x), g2(d)),
		fmt.Sprintf("(ite %s %s (ite %s 1 0))", intoEmpty, g3(x), inString))
}

// cborAfterValue: token-level successor mode for one complete data item.
func (fv *FuncVC) cborAfterValue(m string) string {
	return fmt.Sprintf("(ite (= %s %d) %d (ite (or (= %s %d) (= %s %d)) %d (ite (= %s %d) %d (ite (or (= %s %d) (= %s %d)) %d 0))))", m, mAFTERKEY, mOBJNEXT, m, mARRFIRST, m, mARRNEXT, mARRNEXT, m, mTOP, mDONE, m, mDONE, m, mLISTNEXT, mLISTNEXT)
}

var _ = types.Typ
