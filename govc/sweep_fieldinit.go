package main

import (
	"fmt"
	"go/types"
	"strings"

	"golang.org/x/tools/go/ssa"
)

// fieldInit: for a function whose contract carries `flag initialises T`,
// every field of struct T must be determined by the function: either a store
// to that field of the constructed object dominates every return, or a
// postcondition of the contract pins res.<field> (and is then proved like any
// other postcondition). The field list comes from go/types at check time, so
// a field added to T later is demanded automatically.
func (fv *FuncVC) fieldInitObligations() {
	if fv.C == nil || fv.C.Flags["initialises"] == "" {
		return
	}
	tn := fv.C.Flags["initialises"]
	fn := fv.Fn
	var st *types.Struct
	var named types.Type
	if obj := fn.Pkg.Pkg.Scope().Lookup(tn); obj != nil {
		named = obj.Type()
		st, _ = named.Underlying().(*types.Struct)
	}
	if st == nil {
		fv.unsupported("initialises %s: no such struct type", tn)
	}
	// the constructed object: the value (or the alloc it is loaded from) returned by every return
	var rets []*ssa.Return
	for _, b := range fn.Blocks {
		if len(b.Instrs) > 0 {
			if r, ok := b.Instrs[len(b.Instrs)-1].(*ssa.Return); ok {
				rets = append(rets, r)
			}
		}
	}
	objOf := func(v ssa.Value) ssa.Value {
		if u, ok := v.(*ssa.UnOp); ok {
			if a, ok := u.X.(*ssa.Alloc); ok {
				return a
			}
		}
		return v
	}
	stored := map[string]bool{}
	for _, b := range fn.Blocks {
		for _, in := range b.Instrs {
			s, ok := in.(*ssa.Store)
			if !ok {
				continue
			}
			fa, ok := s.Addr.(*ssa.FieldAddr)
			if !ok {
				continue
			}
			okAll := len(rets) > 0
			for _, r := range rets {
				if len(r.Results) == 0 || objOf(r.Results[0]) != fa.X || !b.Dominates(r.Block()) {
					okAll = false
				}
			}
			if okAll {
				pt := fa.X.Type().Underlying().(*types.Pointer).Elem().Underlying().(*types.Struct)
				stored[pt.Field(fa.Field).Name()] = true
			}
		}
	}
	for i := 0; i < st.NumFields(); i++ {
		f := st.Field(i).Name()
		pinned := false
		for _, e := range fv.C.Ensures {
			if strings.Contains(e.Src, "res."+f) {
				pinned = true
			}
		}
		goal := "false"
		if stored[f] || pinned {
			goal = "true"
		}
		saveR := fv.curReach
		fv.curReach = "true"
		o := fv.oblige("fieldinit", f, nil, fn.Pos(), goal, fmt.Sprintf("%s determines field %s of every %s it returns (dominating store or postcondition on res.%s)", shortFn(fn), f, tn, f))
		fv.curReach = saveR
		_ = o
	}
}
