package main

import (
	"go/types"
	"strings"

	"golang.org/x/tools/go/ssa"
)

// Effect over-approximates what a call may modify.
type Effect struct {
	Heap     map[string]bool
	Globals  map[*ssa.Global]bool
	Logs     map[string]bool
	Opaque   bool       // may modify any heap field
	ArgRoots []addrRoot // only for call-site effects: roots of pointer arguments passed to library code
	Ghost    []string
	Allocs   bool
	Calls    map[*ssa.Function]bool
	Dynamic  []string // descriptions of dynamic calls
}

type trackedSig struct {
	sig      *types.Signature
	argTypes []types.Type // receiver first
}

func newEffect() *Effect {
	return &Effect{Heap: map[string]bool{}, Globals: map[*ssa.Global]bool{}, Logs: map[string]bool{}, Calls: map[*ssa.Function]bool{}}
}

func (e *Effect) merge(o *Effect) bool {
	ch := false
	for k := range o.Heap {
		if !e.Heap[k] {
			e.Heap[k] = true
			ch = true
		}
	}
	for k := range o.Globals {
		if !e.Globals[k] {
			e.Globals[k] = true
			ch = true
		}
	}
	for k := range o.Logs {
		if !e.Logs[k] {
			e.Logs[k] = true
			ch = true
		}
	}
	if o.Opaque && !e.Opaque {
		e.Opaque = true
		ch = true
	}
	if o.Allocs && !e.Allocs {
		e.Allocs = true
		ch = true
	}
	return ch
}

// ifaceKey names an interface method for contracts and call logs.
func ifaceKey(cc *ssa.CallCommon) string {
	rt := cc.Value.Type()
	return typeShort(rt) + "." + cc.Method.Name()
}

func typeShort(t types.Type) string {
	t = types.Unalias(t)
	if n, ok := t.(*types.Named); ok {
		o := n.Obj()
		if o.Pkg() == nil {
			return o.Name()
		}
		return o.Pkg().Name() + "." + o.Name()
	}
	return types.TypeString(t, func(p *types.Package) string { return p.Name() })
}

// dynKey names a dynamic (function-value) call.
func dynKey(cc *ssa.CallCommon) string {
	switch v := cc.Value.(type) {
	case *ssa.UnOp:
		switch a := v.X.(type) {
		case *ssa.FreeVar:
			return "freevar:" + a.Parent().Name() + "." + a.Name()
		case *ssa.Global:
			return "var:" + a.Pkg.Pkg.Path() + "." + a.Name()
		case *ssa.FieldAddr:
			st := a.X.Type().Underlying().(*types.Pointer).Elem()
			f := st.Underlying().(*types.Struct).Field(a.Field)
			return "field:" + structName(st) + "." + f.Name()
		}
	case *ssa.Parameter:
		return "param:" + v.Name()
	case *ssa.Field:
		st := v.X.Type()
		f := st.Underlying().(*types.Struct).Field(v.Field)
		return "field:" + structName(st) + "." + f.Name()
	}
	return "dyn"
}

// trackedName maps a call to the name used in `track` declarations and call
// logs, or "".
func (p *Prog) trackedName(cc *ssa.CallCommon) string {
	if cc.IsInvoke() {
		k := ifaceKey(cc)
		if p.CS.Tracked[k] {
			return k
		}
		// strip the package qualifier for module-local interfaces
		if i := strings.LastIndex(k, "."); i > 0 {
			if j := strings.Index(k, "."); j < i {
				short := k[j+1:]
				if p.CS.Tracked[short] {
					return short
				}
			}
		}
		return ""
	}
	if f := cc.StaticCallee(); f != nil {
		n := f.Name()
		if f.Signature.Recv() != nil && f.Pkg != nil {
			n = strings.NewReplacer("(", "", ")", "", "*", "").Replace(f.RelString(f.Pkg.Pkg))
		}
		if p.CS.Tracked[n] {
			return n
		}
		if f.Pkg != nil && p.CS.Tracked[f.Pkg.Pkg.Name()+"."+n] {
			return f.Pkg.Pkg.Name() + "." + n
		}
		return ""
	}
	if _, ok := cc.Value.(*ssa.Builtin); ok {
		return ""
	}
	k := dynKey(cc)
	if strings.HasPrefix(k, "param:") && p.CS.Tracked[k[len("param:"):]] {
		return k[len("param:"):]
	}
	if strings.HasPrefix(k, "freevar:") && p.CS.Tracked[k[len("freevar:"):]] {
		return k[len("freevar:"):]
	}
	if strings.HasPrefix(k, "var:") {
		short := k[strings.LastIndex(k, ".")+1:]
		if p.CS.Tracked[short] {
			return short
		}
	}
	if strings.HasPrefix(k, "field:") {
		short := k[len("field:"):]
		if i := strings.Index(short, "_"); i >= 0 {
			short = short[i+1:]
		}
		if p.CS.Tracked[short] {
			return short
		}
	}
	return ""
}

// opaqueArgEffect: a dynamic callee may modify every field of module
// structs it receives by pointer.
func (p *Prog) opaqueArgEffect(e *Effect, ts []types.Type) {
	for _, t := range ts {
		pt, ok := t.Underlying().(*types.Pointer)
		if !ok {
			continue
		}
		elem := pt.Elem()
		if _, isStruct := elem.Underlying().(*types.Struct); isStruct && !opaqueStruct(elem) {
			for _, k := range allFieldKeys(elem) {
				e.Heap[k] = true
			}
		}
	}
}

func callArgTypes(cc *ssa.CallCommon) []types.Type {
	var ts []types.Type
	if cc.IsInvoke() {
		ts = append(ts, cc.Value.Type())
	}
	for _, a := range cc.Args {
		ts = append(ts, a.Type())
	}
	return ts
}

// callEffect is the effect of one call site as seen by the caller.
func (p *Prog) callEffect(cc *ssa.CallCommon) *Effect {
	e := newEffect()
	if tn := p.trackedName(cc); tn != "" {
		e.Logs[tn] = true
	}
	if _, ok := cc.Value.(*ssa.Builtin); ok {
		return e
	}
	if cc.IsInvoke() {
		if c := p.ifaceContract(cc); c != nil && c.HasMod {
			p.modifiesEffect(e, c, nil)
			return e
		}
		p.opaqueArgEffect(e, callArgTypes(cc))
		return e
	}
	f := cc.StaticCallee()
	if f == nil {
		if c := p.CS.ByKey[dynKey(cc)]; c != nil && c.HasMod {
			p.modifiesEffect(e, c, nil)
			return e
		}
		p.opaqueArgEffect(e, callArgTypes(cc))
		return e
	}
	if c := p.CS.ByKey[f.String()]; c != nil && c.HasMod {
		p.modifiesEffect(e, c, f)
		// logs still follow the call graph
		if fe := p.Effects[f]; fe != nil {
			for l := range fe.Logs {
				e.Logs[l] = true
			}
		}
		return e
	}
	if fe := p.Effects[f]; fe != nil {
		e.merge(fe)
		return e
	}
	// library function: may write through pointer arguments
	for _, a := range cc.Args {
		if _, ok := a.Type().Underlying().(*types.Pointer); ok {
			r := staticRoot(a)
			if r.kind != rootUnknown {
				e.ArgRoots = append(e.ArgRoots, r)
			}
		}
	}
	switch f.String() {
	case "(*sync.Mutex).Lock", "(*sync.Mutex).Unlock", "(*sync.RWMutex).Lock", "(*sync.RWMutex).Unlock":
		e.ArgRoots = nil
		e.Ghost = append(e.Ghost, "heldany")
	}
	return e
}

// modifiesEffect translates a `modifies` clause into an effect (coarse: the
// whole heap map of each named field).
func (p *Prog) modifiesEffect(e *Effect, c *Contract, f *ssa.Function) {
	for _, m := range c.Modifies {
		switch {
		case m == "heap":
			e.Opaque = true
		case strings.HasPrefix(m, "global "):
			name := strings.TrimSpace(m[len("global "):])
			if g := p.findGlobal(c.Pkg, name); g != nil {
				e.Globals[g] = true
			}
		case strings.HasPrefix(m, "ghost "):
			e.Ghost = append(e.Ghost, strings.TrimSpace(m[len("ghost "):]))
		case strings.HasPrefix(m, "pooled "):
			// not visible to callers
		case strings.HasSuffix(m, ".content@ghost"):
			// ghost content of a buffer / reader: callers forget the whole ghost map
			e.Heap["ghost.content"] = true
		default:
			i := strings.Index(m, ".")
			if i < 0 {
				continue
			}
			head, field := m[:i], m[i+1:]
			// param.field: resolve the struct through the parameter's type
			if f != nil {
				names := c.Params
				for pi, pn := range names {
					if pn == head && pi < len(f.Params) {
						if pt, ok := f.Params[pi].Type().Underlying().(*types.Pointer); ok {
							e.Heap[heapKey(pt.Elem(), field)] = true
						}
					}
				}
			}
			if k := p.findHeapKey(head, field); k != "" {
				e.Heap[k] = true
			}
		}
	}
}

func (p *Prog) findHeapKey(typ, field string) string {
	for k := range p.HeapKeyType {
		if strings.HasSuffix(k, "_"+typ+"."+field) || k == typ+"."+field {
			return k
		}
	}
	return ""
}

func (p *Prog) findGlobal(pkg, name string) *ssa.Global {
	if i := strings.LastIndex(name, "."); i >= 0 {
		pkg, name = name[:i], name[i+1:]
	}
	for _, sp := range p.SSA.AllPackages() {
		if sp.Pkg.Path() == pkg || sp.Pkg.Name() == pkg {
			if g, ok := sp.Members[name].(*ssa.Global); ok {
				return g
			}
		}
	}
	return nil
}

func (p *Prog) ifaceContract(cc *ssa.CallCommon) *Contract {
	k := ifaceKey(cc)
	if c := p.CS.ByKey["iface:"+k]; c != nil {
		return c
	}
	if j := strings.Index(k, "."); j >= 0 && strings.Count(k, ".") == 2 {
		if c := p.CS.ByKey["iface:"+k[j+1:]]; c != nil {
			return c
		}
	}
	// the interface that declares the method (embedded interfaces)
	if cc.Method != nil {
		if recv := cc.Method.Type().(*types.Signature).Recv(); recv != nil {
			k2 := typeShort(recv.Type()) + "." + cc.Method.Name()
			if c := p.CS.ByKey["iface:"+k2]; c != nil {
				return c
			}
			if j := strings.Index(k2, "."); j >= 0 && strings.Count(k2, ".") == 2 {
				if c := p.CS.ByKey["iface:"+k2[j+1:]]; c != nil {
					return c
				}
			}
		}
	}
	return nil
}

// computeEffects: direct effects of every module function, then a fixpoint
// over static calls.
func (p *Prog) computeEffects() {
	p.Effects = map[*ssa.Function]*Effect{}
	p.HeapKeyType = map[string]types.Type{}
	p.StoredGlobals = map[*ssa.Global][]*ssa.Function{}
	p.TrackedSigs = map[string]trackedSig{}
	var fns []*ssa.Function
	for _, f := range p.AllFns {
		if !p.inModule(f) || len(f.Blocks) == 0 {
			continue
		}
		fns = append(fns, f)
		e := newEffect()
		p.Effects[f] = e
		for _, b := range f.Blocks {
			for _, in := range b.Instrs {
				switch in := in.(type) {
				case *ssa.FieldAddr:
					st := in.X.Type().Underlying().(*types.Pointer).Elem()
					if !opaqueStruct(st) {
						fld := st.Underlying().(*types.Struct).Field(in.Field)
						p.HeapKeyType[heapKey(st, fld.Name())] = fld.Type()
					}
				case *ssa.Store:
					r := staticRoot(in.Addr)
					switch r.kind {
					case rootHeap:
						for _, k := range r.keys {
							e.Heap[k] = true
						}
					case rootGlobal:
						e.Globals[r.global] = true
						p.StoredGlobals[r.global] = append(p.StoredGlobals[r.global], f)
					}
				case *ssa.Alloc:
					if in.Heap {
						e.Allocs = true
					}
				case *ssa.MakeSlice, *ssa.MakeMap, *ssa.MakeChan, *ssa.MakeClosure:
					e.Allocs = true
				case ssa.CallInstruction:
					cc := in.Common()
					if tn := p.trackedName(cc); tn != "" {
						e.Logs[tn] = true
						if _, ok := p.TrackedSigs[tn]; !ok {
							p.TrackedSigs[tn] = trackedSig{sig: cc.Signature(), argTypes: callArgTypes(cc)}
						}
					}
					if _, ok := cc.Value.(*ssa.Builtin); ok {
						continue
					}
					if cc.IsInvoke() {
						p.opaqueArgEffect(e, callArgTypes(cc))
						e.Dynamic = append(e.Dynamic, ifaceKey(cc))
						continue
					}
					if sf := cc.StaticCallee(); sf != nil {
						e.Calls[sf] = true
						if !p.inModule(sf) {
							if lc := p.CS.ByKey[sf.String()]; lc != nil && lc.HasMod {
								for _, m := range lc.Modifies {
									if strings.HasSuffix(m, ".content@ghost") {
										e.Heap["ghost.content"] = true
									}
								}
							}
							for _, a := range cc.Args {
								if _, ok := a.Type().Underlying().(*types.Pointer); ok {
									r := staticRoot(a)
									switch r.kind {
									case rootHeap:
										if _, isParamLike := a.(*ssa.FieldAddr); isParamLike {
											for _, k := range r.keys {
												e.Heap[k] = true
											}
										}
									case rootGlobal:
										e.Globals[r.global] = true
									}
								}
							}
						}
						continue
					}
					p.opaqueArgEffect(e, callArgTypes(cc))
					e.Dynamic = append(e.Dynamic, dynKey(cc))
				}
			}
		}
	}
	// struct field types for keys never addressed by FieldAddr
	for _, pk := range p.Pkgs {
		if pk.Types == nil {
			continue
		}
		sc := pk.Types.Scope()
		for _, n := range sc.Names() {
			if tn, ok := sc.Lookup(n).(*types.TypeName); ok {
				if st, ok := tn.Type().Underlying().(*types.Struct); ok {
					for i := 0; i < st.NumFields(); i++ {
						k := heapKey(tn.Type(), st.Field(i).Name())
						if _, ok := p.HeapKeyType[k]; !ok {
							p.HeapKeyType[k] = st.Field(i).Type()
						}
					}
				}
			}
		}
	}
	for changed := true; changed; {
		changed = false
		for _, f := range fns {
			e := p.Effects[f]
			for c := range e.Calls {
				if ce := p.Effects[c]; ce != nil {
					if e.merge(ce) {
						changed = true
					}
				}
			}
		}
	}
}

// globalProtected: a global with a declared invariant that no function other
// than init stores to keeps its value across calls and loops.
func (p *Prog) globalProtected(g *ssa.Global) bool {
	if p.hasConfigInv(g) {
		return true // configuration: assumed not to change while a logging call runs
	}
	if !p.hasGlobalInv(g) {
		return false
	}
	for _, f := range p.StoredGlobals[g] {
		if f.Name() != "init" && !strings.HasPrefix(f.Name(), "init#") {
			return false
		}
	}
	return true
}

func (p *Prog) hasConfigInv(g *ssa.Global) bool {
	for _, gi := range p.CS.Globals {
		if gi.Assumed && gi.Pkg == g.Pkg.Pkg.Path() && mentionsIdent(gi.E, g.Name()) {
			return true
		}
	}
	return false
}

func (p *Prog) hasGlobalInv(g *ssa.Global) bool {
	for _, gi := range p.CS.Globals {
		if !gi.Assumed && gi.Pkg == g.Pkg.Pkg.Path() && mentionsIdent(gi.E, g.Name()) {
			return true
		}
	}
	return false
}

func mentionsIdent(e Expr, name string) bool {
	switch e := e.(type) {
	case EIdent:
		return e.Name == name
	case EUnary:
		return mentionsIdent(e.X, name)
	case EBinary:
		return mentionsIdent(e.X, name) || mentionsIdent(e.Y, name)
	case ECall:
		for _, a := range e.Args {
			if mentionsIdent(a, name) {
				return true
			}
		}
	case EField:
		return mentionsIdent(e.X, name)
	case EIndex:
		return mentionsIdent(e.X, name) || mentionsIdent(e.I, name)
	case ESliceE:
		return mentionsIdent(e.X, name) || (e.Lo != nil && mentionsIdent(e.Lo, name)) || (e.Hi != nil && mentionsIdent(e.Hi, name))
	case EQuant:
		return mentionsIdent(e.Lo, name) || mentionsIdent(e.Hi, name) || mentionsIdent(e.Body, name)
	}
	return false
}
