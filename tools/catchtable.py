#!/usr/bin/env python3
"""Regenerates the seeded-change table in DESIGN.md (between the CATCHTABLE markers) from /verif/seeded/*/meta.json."""
import json, os, re
rows = []
for sid in sorted(os.listdir('/verif/seeded')):
    mp = f'/verif/seeded/{sid}/meta.json'
    if not os.path.exists(mp): continue
    m = json.load(open(mp))
    checks = m.get('checks', {})
    caught = m.get('caught_by', [])
    ran = ', '.join(f"{p}: {'VIOLATION x%d' % c['n_violations'] if c['exit'] == 1 else ('check error' if c['exit'] == 2 else 'passes')}" for p, c in checks.items())
    summ = (m.get('summary') or '').replace('|', '/').replace('\n', ' ')
    if len(summ) > 150: summ = summ[:147] + '...'
    mode = 'literal /repo' if any('applied to /repo itself' in r for r in m.get('ran', [])) else 'scratch worktree'
    rows.append(f"| {sid} | {summ} | {ran} | {', '.join(caught) if caught else '**not caught**'} | {mode} |")
tbl = "| seed | change | registered quick checks run against it | caught by | run on |\n|------|--------|----------------------------------------|-----------|--------|\n" + '\n'.join(rows) + '\n'
n = len(rows); c = sum(1 for r in rows if '**not caught**' not in r)
tbl += f"\n{c} of {n} kept changes are caught by at least one registered check.\n"
p = '/verif/DESIGN.md'
s = open(p).read()
s = re.sub(r'<!-- CATCHTABLE BEGIN -->.*?<!-- CATCHTABLE END -->', '<!-- CATCHTABLE BEGIN -->\n' + tbl + '<!-- CATCHTABLE END -->', s, flags=re.S)
open(p, 'w').write(s)
print(c, 'of', n)
