package main

import (
	"math/big"
	"fmt"
	"sync"
	"go/constant"
	"go/token"
	"go/types"
	"sort"
	"strings"

	"golang.org/x/tools/go/ssa"
)

// ---------------------------------------------------------------------------
// Obligations

type Obligation struct {
	Name    string // <func>#<kind>...
	Kind    string // post, pre, inv-init, inv-keep, bounds, nil, ovf, div, assert, typeassert, ...
	Props   []string
	Pos     token.Pos
	Where   string
	Src     string // contract text, if any
	NAssert int    // number of assertions visible to this obligation
	Reach   string
	Goal    string
	Func    string
	Probe   bool // vacuity probe: expected sat
	Block   int  // block the obligation belongs to (-1: none): only assertions of its ancestors are relevant
	Anc     map[int]bool // explicit set of relevant blocks (obligations split over the arms of a wide join)
	replayed bool
	replayPassed bool // a replay ran on the real code and passed
	candidate bool
	clauseTagged bool // the clause this obligation comes from carries its own property tags
	fv *FuncVC
	// results
	Res    SolveResult
	Status string // discharged, failed, unknown, probe-ok, probe-failed
	Query  string
}

// ---------------------------------------------------------------------------
// Values and lvalues

type pathElem struct {
	field  int    // struct field index, or -1
	name   string // selector name
	idx    string // array index term (when field == -1)
	stype  Sort   // sort of the aggregate this element selects from
	etype  Sort   // sort of the selected element
	gotype types.Type
}

type LKind int

const (
	LAlloc LKind = iota // local cell
	LHeap               // field of a heap object: H_T_f[ref]
	LCell               // heap cell of non-struct pointee: P_T[ref]
	LGlobal
	LElem // slice element
)

type LValue struct {
	Kind   LKind
	Alloc  *ssa.Alloc
	Ref    string
	HKey   string // heap map key (LHeap: "T.f", LCell: "cell.T")
	HSort  Sort   // sort stored in that heap map
	Global *ssa.Global
	Slice  ssa.Value // LElem
	SliceT Term
	Idx    string
	Path   []pathElem
	Type   types.Type // type of the addressed variable
}

type Val struct {
	T     Term
	LV    *LValue
	Tuple []Val
}

// ---------------------------------------------------------------------------
// State

type State struct {
	cells   map[*ssa.Alloc]Term
	heap    map[string]Term
	globals map[*ssa.Global]Term
	ghost   map[string]Term
	slices  map[ssa.Value]Term // in-place updated slice values
}

func newState() *State {
	return &State{cells: map[*ssa.Alloc]Term{}, heap: map[string]Term{}, globals: map[*ssa.Global]Term{}, ghost: map[string]Term{}, slices: map[ssa.Value]Term{}}
}

func (s *State) clone() *State {
	n := newState()
	for k, v := range s.cells {
		n.cells[k] = v
	}
	for k, v := range s.heap {
		n.heap[k] = v
	}
	for k, v := range s.globals {
		n.globals[k] = v
	}
	for k, v := range s.ghost {
		n.ghost[k] = v
	}
	for k, v := range s.slices {
		n.slices[k] = v
	}
	return n
}

// ---------------------------------------------------------------------------
// FuncVC

type deferred struct {
	guard string
	call  *ssa.CallCommon
	pos   token.Pos
	instr ssa.Instruction
}

type FuncVC struct {
	P    *Prog
	Fn   *ssa.Function
	C    *Contract
	Mode Mode
	Name string

	sortDecls []string
	sortSeen  map[string]bool
	decls     []string
	declared  map[string]bool
	asserts   []string
	assertBlk []int // block in which each assertion was emitted (-1: before the body)
	inBlocks  bool
	ancCache  map[int]map[int]bool
	ancMu     sync.Mutex
	obls      []*Obligation
	nfresh    int

	vals  map[ssa.Value]Val
	reach map[*ssa.BasicBlock]string
	exit  map[*ssa.BasicBlock]*State
	edge  map[[2]int]string // edge condition pred->succ

	cur      *State // state while translating a block
	curBlock *ssa.BasicBlock
	curReach string
	entry    *State // function entry state (for old())

	heapSorts map[string]Sort // heap key -> sort of stored values
	tags      map[string]int
	tagTypes  []types.Type
	strConsts map[string]string
	fnIDs     map[*ssa.Function]int
	defers    []deferred
	callN     int

	loopMeasure map[*ssa.BasicBlock]string
	loopHeads map[*ssa.BasicBlock]int  // header -> ordinal
	loopBody  map[*ssa.BasicBlock][]*ssa.BasicBlock
	backEdges map[[2]int]bool

	warnings   []string
	trustedUse map[string]bool
	unmodelled map[string]bool
	helpers    map[string]bool // module callees without contract called by this function
	activeProp string
	failed     error
	logKeys    map[string][]Sort // tracked call log key -> arg sorts (recv first)
	allocCells map[*ssa.Alloc]bool
	escaped    map[*ssa.Alloc]bool
	params     map[string]Val
	streamAppend func(r, d, x Term, xv ssa.Value, pos token.Pos)
	inGlobalInv bool
	bindingEscape bool
	closureOnly map[*ssa.Alloc]bool
	deferOnly   map[*ssa.Alloc]bool
	inCall bool
	curCallHasFuncArg bool
	closureBindings []Val
	inferred map[*ssa.BasicBlock]*LoopSpec
	inferCounters bool
	safetyOnly bool
	quants []*quantInst
	mergeWidth int
	pfxPairs []pfxPair
	sfxFacts []sfxFact
	sliceOrigins map[ssa.Value]sliceOrigin
	lenient bool
	inert bool
	replayTemplate string
	fp             bool // `flag fp`: float32/float64 are SMT FloatingPoint values in this function
	appendOrd      map[ssa.Value]int
	mentions       map[string]bool
	iterInit       map[string]bool
	covers         map[*Clause][]string // ensures clause A ==> B: (reach && A) at each return
	replayArgs []replayArg
	results    []Val
}

func (fv *FuncVC) warn(f string, a ...interface{}) {
	w := fmt.Sprintf(f, a...)
	for _, x := range fv.warnings {
		if x == w {
			return
		}
	}
	fv.warnings = append(fv.warnings, w)
}

type unsupported struct{ msg string }

func (fv *FuncVC) unsupported(f string, a ...interface{}) {
	panic(unsupported{fmt.Sprintf(f, a...)})
}

func (fv *FuncVC) fresh(prefix string, s Sort) Term {
	fv.nfresh++
	name := fmt.Sprintf("%s!%d", sanitize(prefix), fv.nfresh)
	fv.declare(name, s)
	return Term{S: name, Sort: s}
}

func sanitize(s string) string {
	r := strings.NewReplacer(" ", "_", "(", "_", ")", "_", "*", "p", "/", "_", "[", "_", "]", "_", ",", "_", "$", "_", ":", "_", "\"", "", "{", "_", "}", "_", ";", "_", "|", "_", ">", "_", "<", "_", "=", "_", "&", "_", "!", "_")
	return r.Replace(s)
}

func (fv *FuncVC) declare(name string, s Sort) {
	if fv.declared[name] {
		return
	}
	fv.declared[name] = true
	fv.ensureSort(s)
	fv.decls = append(fv.decls, fmt.Sprintf("(declare-const %s %s)", name, s.smt(fv.Mode)))
}

// fpDefine: a defined (not uninterpreted) float operation or constant (`flag fp`).
func (fv *FuncVC) fpDefine(name string, args []string, ret string, body string) {
	if fv.declared[name] {
		return
	}
	fv.declared[name] = true
	var ps []string
	for i, a := range args {
		ps = append(ps, fmt.Sprintf("(x%d %s)", i, a))
	}
	fv.decls = append(fv.decls, fmt.Sprintf("(define-fun %s (%s) %s %s)", name, strings.Join(ps, " "), ret, body))
}

// fpLiteral: the exact rational value of a Go constant rounded to nearest even into the format.
func fpLiteral(v constant.Value, w int) string {
	eb, sb := 11, 53
	if w == 32 {
		eb, sb = 8, 24
	}
	r, _ := new(big.Rat).SetString(constant.ToFloat(v).ExactString())
	if r == nil {
		f, _ := constant.Float64Val(v)
		r = new(big.Rat).SetFloat64(f)
	}
	num, den := r.Num(), r.Denom()
	lit := fmt.Sprintf("(/ %s.0 %s.0)", new(big.Int).Abs(num).String(), den.String())
	if num.Sign() < 0 {
		lit = "(- " + lit + ")"
	}
	return fmt.Sprintf("((_ to_fp %d %d) RNE %s)", eb, sb, lit)
}

func fpDims(w int) (int, int) {
	if w == 32 {
		return 8, 24
	}
	return 11, 53
}

func (fv *FuncVC) declareFun(name string, args []string, ret string) {
	if fv.declared[name] {
		return
	}
	fv.declared[name] = true
	fv.decls = append(fv.decls, fmt.Sprintf("(declare-fun %s (%s) %s)", name, strings.Join(args, " "), ret))
}

func (fv *FuncVC) assert(s string) {
	if s == "true" {
		return
	}
	fv.asserts = append(fv.asserts, s)
	b := -1
	if fv.curBlock != nil && fv.inBlocks {
		b = fv.curBlock.Index
	}
	fv.assertBlk = append(fv.assertBlk, b)
}

// ancestors: blocks from which b is reachable without taking a back edge
// (b included).
func (fv *FuncVC) ancestors(b *ssa.BasicBlock) map[int]bool {
	fv.ancMu.Lock()
	defer fv.ancMu.Unlock()
	if a, ok := fv.ancCache[b.Index]; ok {
		return a
	}
	seen := map[int]bool{b.Index: true}
	stack := []*ssa.BasicBlock{b}
	for len(stack) > 0 {
		x := stack[len(stack)-1]
		stack = stack[:len(stack)-1]
		for _, p := range x.Preds {
			if fv.backEdges[[2]int{p.Index, x.Index}] || seen[p.Index] {
				continue
			}
			seen[p.Index] = true
			stack = append(stack, p)
		}
	}
	fv.ancCache[b.Index] = seen
	return seen
}

// assume adds a fact that holds whenever the current block is reached.
func (fv *FuncVC) assume(s string) {
	fv.assert(smtImp(fv.curReach, s))
}

func (fv *FuncVC) oblige(kind, detail string, props []string, pos token.Pos, goal string, src string) *Obligation {
	if goal == "true" && kind != "fieldinit" {
		return nil
	}
	name := fv.Name + "#" + kind
	if detail != "" {
		name += "(" + detail + ")"
	}
	// make names unique but stable: suffix by occurrence
	n := 0
	for _, o := range fv.obls {
		if o.Name == name || strings.HasPrefix(o.Name, name+"@") {
			n++
		}
	}
	if n > 0 {
		name = fmt.Sprintf("%s@%d", name, n+1)
	}
	tagged := props != nil
	if props == nil && fv.C != nil {
		props = fv.C.Props
	}
	if !pos.IsValid() {
		pos = fv.curPos()
	}
	blk := -1
	if fv.curBlock != nil && fv.inBlocks {
		blk = fv.curBlock.Index
	}
	if kind != "fieldinit" && kind != "frame" && fv.curBlock != nil && fv.inBlocks && goal != "false" {
		if J, chain := fv.splitPoint(fv.curBlock); J != nil {
			// wide join above: one obligation per incoming arm, each seeing only its own arm
			k := 0
			var last *Obligation
			for _, q := range J.Preds {
				if fv.backEdges[[2]int{q.Index, J.Index}] {
					continue
				}
				if _, ok := fv.reach[q]; !ok {
					continue
				}
				k++
				anc := map[int]bool{}
				for b := range fv.ancestors(q) {
					anc[b] = true
				}
				for _, c := range chain {
					anc[c] = true
				}
				anc[J.Index] = true
				o := &Obligation{Block: blk, Anc: anc, Name: fmt.Sprintf("%s~arm%d", name, k), Kind: kind, Props: props, Pos: pos, Where: fv.P.relPos(pos), Src: src,
					NAssert: len(fv.asserts), Reach: smtAnd(fv.curReach, fv.edgeReach(q, J)), Goal: goal, Func: fv.Name, fv: fv, clauseTagged: tagged}
				fv.obls = append(fv.obls, o)
				last = o
			}
			if last != nil {
				return last
			}
		}
	}
	o := &Obligation{Block: blk, Name: name, Kind: kind, Props: props, Pos: pos, Where: fv.P.relPos(pos), Src: src,
		NAssert: len(fv.asserts), Reach: fv.curReach, Goal: goal, Func: fv.Name, fv: fv, clauseTagged: tagged}
	fv.obls = append(fv.obls, o)
	return o
}

// ---------------------------------------------------------------------------
// Sort declarations

func (fv *FuncVC) sliceDT(s Sort) string { return s.smt(fv.Mode) }

func (fv *FuncVC) ensureSort(s Sort) {
	key := s.smt(fv.Mode)
	switch s.Kind {
	case KBool, KInt, KRef, KTuple, KMath:
		return
	case KArray:
		fv.ensureSort(*s.Elem)
		return
	}
	if fv.sortSeen[key] {
		return
	}
	fv.sortSeen[key] = true
	idx := idxSort(fv.Mode)
	switch s.Kind {
	case KBytes:
		b := SByte.smt(fv.Mode)
		fv.sortDecls = append(fv.sortDecls, fmt.Sprintf("(declare-datatypes ((Bytes 0)) (((mk_Bytes (Bytes_len %s) (Bytes_arr (Array %s %s)) (Bytes_off %s) (Bytes_base Int) (Bytes_cap %s) (Bytes_g1 Int) (Bytes_g2 Int) (Bytes_g3 Int)))))", idx, idx, b, idx, idx))
		fv.sortDecls = append(fv.sortDecls, fv.streamPrelude()...)
	case KSlice:
		fv.ensureSort(*s.Elem)
		fv.sortDecls = append(fv.sortDecls, fmt.Sprintf("(declare-datatypes ((%[1]s 0)) (((mk_%[1]s (%[1]s_len %[2]s) (%[1]s_arr (Array %[2]s %[3]s)) (%[1]s_off %[2]s) (%[1]s_base Int) (%[1]s_cap %[2]s)))))", key, idx, s.Elem.smt(fv.Mode)))
	case KIface:
		fv.sortDecls = append(fv.sortDecls, "(declare-datatypes ((Iface 0)) (((mk_Iface (Iface_tag Int) (Iface_ref Int)))))")
	case KFloat:
		if fv.fp {
			eb, sb := 11, 53
			if s.W == 32 {
				eb, sb = 8, 24
			}
			fv.sortDecls = append(fv.sortDecls, fmt.Sprintf("(define-sort %s () (_ FloatingPoint %d %d))", key, eb, sb))
		} else {
			fv.sortDecls = append(fv.sortDecls, fmt.Sprintf("(declare-sort %s 0)", key))
		}
	case KOpaque:
		fv.sortDecls = append(fv.sortDecls, fmt.Sprintf("(declare-sort %s 0)", key))
	case KStruct:
		panic("ensureSort: struct sorts are declared through ensureStruct: " + s.Name)
	}
}

// structInfo caches the layout of struct datatypes.
type structInfo struct {
	sort   Sort
	fields []*types.Var
	fsorts []Sort
	opaque bool
}

var structCache = map[string]*structInfo{}

func (fv *FuncVC) sortOf(t types.Type) Sort {
	s := sortOfType(t)
	switch s.Kind {
	case KStruct:
		fv.ensureStruct(t)
	case KSlice:
		fv.sortOf(t.Underlying().(*types.Slice).Elem())
		fv.ensureSort(s)
	case KArray:
		fv.sortOf(t.Underlying().(*types.Array).Elem())
	default:
		fv.ensureSort(s)
	}
	return s
}

func (fv *FuncVC) ensureStruct(t types.Type) *structInfo {
	name := structName(t)
	key := fmt.Sprintf("%d/%s", fv.Mode, name)
	st := t.Underlying().(*types.Struct)
	si := structCache[key]
	if si == nil {
		si = &structInfo{sort: Sort{Kind: KStruct, Name: name}}
		for i := 0; i < st.NumFields(); i++ {
			si.fields = append(si.fields, st.Field(i))
		}
		structCache[key] = si
	}
	if fv.sortSeen["S_"+name] {
		return si
	}
	fv.sortSeen["S_"+name] = true
	var fs []string
	si.fsorts = nil
	for _, f := range si.fields {
		s := fv.sortOf(f.Type())
		si.fsorts = append(si.fsorts, s)
		fs = append(fs, fmt.Sprintf("(S_%s_%s %s)", name, f.Name(), s.smt(fv.Mode)))
	}
	if len(fs) == 0 {
		fv.sortDecls = append(fv.sortDecls, fmt.Sprintf("(declare-datatypes ((S_%[1]s 0)) (((mk_S_%[1]s))))", name))
	} else {
		fv.sortDecls = append(fv.sortDecls, fmt.Sprintf("(declare-datatypes ((S_%[1]s 0)) (((mk_S_%[1]s %[2]s))))", name, strings.Join(fs, " ")))
	}
	return si
}

func (fv *FuncVC) structInfoOf(t types.Type) *structInfo {
	fv.sortOf(t)
	return structCache[fmt.Sprintf("%d/%s", fv.Mode, structName(t))]
}

// ---------------------------------------------------------------------------
// Well-formedness of symbolic values

func (fv *FuncVC) lenOf(t Term) string {
	return app(fv.sliceDT(t.Sort)+"_len", t.S)
}
func (fv *FuncVC) capOf(t Term) string  { return app(fv.sliceDT(t.Sort)+"_cap", t.S) }
func (fv *FuncVC) offOf(t Term) string  { return app(fv.sliceDT(t.Sort)+"_off", t.S) }
func (fv *FuncVC) arrOf(t Term) string  { return app(fv.sliceDT(t.Sort)+"_arr", t.S) }
func (fv *FuncVC) baseOf(t Term) string { return app(fv.sliceDT(t.Sort)+"_base", t.S) }

func (fv *FuncVC) elemAt(t Term, i string) string {
	return app("select", fv.arrOf(t), fv.iadd(fv.offOf(t), i))
}

func (fv *FuncVC) elemSort(s Sort) Sort {
	if s.Kind == KBytes {
		return SByte
	}
	return *s.Elem
}

// index arithmetic in the mode's index sort
func (fv *FuncVC) iadd(a, b string) string {
	if fv.Mode == ModeBV {
		return app("bvadd", a, b)
	}
	if a == "0" {
		return b
	}
	if b == "0" {
		return a
	}
	return app("+", a, b)
}
func (fv *FuncVC) isub(a, b string) string {
	if fv.Mode == ModeBV {
		return app("bvsub", a, b)
	}
	if b == "0" {
		return a
	}
	return app("-", a, b)
}
func (fv *FuncVC) ile(a, b string) string {
	if fv.Mode == ModeBV {
		return app("bvsle", a, b)
	}
	return app("<=", a, b)
}
func (fv *FuncVC) ilt(a, b string) string {
	if fv.Mode == ModeBV {
		return app("bvslt", a, b)
	}
	return app("<", a, b)
}
func (fv *FuncVC) ilit(v int64) string { return intLit(v, SInt, fv.Mode) }

func (fv *FuncVC) wf(t Term, gt types.Type) string {
	switch t.Sort.Kind {
	case KInt:
		if fv.Mode == ModeInt {
			return rangeAssume(t.S, t.Sort)
		}
	case KBytes, KSlice:
		z := fv.ilit(0)
		mx := "true"
		if fv.Mode == ModeInt {
			mx = smtAnd(app("<", fv.capOf(t), pow2(48)), app("<", fv.offOf(t), pow2(48)))
		} else {
			// no sequence exceeds the 2^48-byte address space (stated assumption)
			lim := intLit(1<<48, SInt, ModeBV)
			mx = smtAnd(app("bvslt", fv.capOf(t), lim), app("bvslt", fv.offOf(t), lim))
		}
		return smtAnd(fv.ile(z, fv.lenOf(t)), fv.ile(fv.lenOf(t), fv.capOf(t)), fv.ile(z, fv.offOf(t)),
			app(">=", fv.baseOf(t), "0"), mx, smtImp(app("=", fv.baseOf(t), "0"), app("=", fv.capOf(t), z)))
	case KIface:
		return smtAnd(app(">=", app("Iface_tag", t.S), "0"), smtImp(app("=", app("Iface_tag", t.S), "0"), app("=", app("Iface_ref", t.S), "0")))
	case KStruct:
		if gt == nil {
			return "true"
		}
		si := fv.structInfoOf(gt)
		if si == nil {
			return "true"
		}
		var cs []string
		for i, f := range si.fields {
			ft := Term{S: app(fmt.Sprintf("S_%s_%s", si.sort.Name, f.Name()), t.S), Sort: si.fsorts[i]}
			cs = append(cs, fv.wf(ft, f.Type()))
		}
		return smtAnd(cs...)
	}
	return "true"
}

func (fv *FuncVC) freshWF(prefix string, gt types.Type) Term {
	s := fv.sortOf(gt)
	t := fv.fresh(prefix, s)
	fv.assert(fv.wf(t, gt))
	return t
}

// zero value of a Go type
func (fv *FuncVC) zero(gt types.Type) Term {
	save := fv.inBlocks
	fv.inBlocks = false // facts about shared symbols are visible on every path
	defer func() { fv.inBlocks = save }()
	return fv.zero1(gt)
}

func (fv *FuncVC) zero1(gt types.Type) Term {
	s := fv.sortOf(gt)
	switch s.Kind {
	case KBool:
		return Term{S: "false", Sort: s}
	case KInt:
		return Term{S: intLit(0, s, fv.Mode), Sort: s}
	case KRef:
		return Term{S: "0", Sort: s}
	case KIface:
		return Term{S: "(mk_Iface 0 0)", Sort: s}
	case KBytes:
		return fv.emptySlice(s)
	case KSlice:
		return fv.emptySlice(s)
	case KStruct:
		si := fv.structInfoOf(gt)
		if len(si.fields) == 0 {
			return Term{S: "mk_S_" + s.Name, Sort: s}
		}
		var as []string
		for _, f := range si.fields {
			as = append(as, fv.zero(f.Type()).S)
		}
		return Term{S: app("mk_S_"+s.Name, as...), Sort: s}
	}
	// floats, opaque, arrays: a fresh constant that is the same for every
	// zero value of that type
	name := "zero_" + sortTag(s, fv.Mode)
	if !fv.declared[name] {
		fv.declare(name, s)
		if at, ok := gt.Underlying().(*types.Array); ok {
			ez := fv.zero(at.Elem())
			fv.assert(fmt.Sprintf("(forall ((k %s)) (! (= (select %s k) %s) :pattern ((select %s k))))", idxSort(fv.Mode), name, ez.S, name))
		}
	}
	return Term{S: name, Sort: s}
}

func (fv *FuncVC) emptySlice(s Sort) Term {
	save := fv.inBlocks
	fv.inBlocks = false // facts about shared symbols are visible on every path
	defer func() { fv.inBlocks = save }()
	return fv.emptySlice1(s)
}

func (fv *FuncVC) emptySlice1(s Sort) Term {
	name := "nil_" + sortTag(s, fv.Mode)
	if !fv.declared[name] {
		fv.declare(name, s)
		t := Term{S: name, Sort: s}
		z := fv.ilit(0)
		fv.assert(smtAnd(app("=", fv.lenOf(t), z), app("=", fv.capOf(t), z), app("=", fv.offOf(t), z), app("=", fv.baseOf(t), "0")))
		if s.Kind == KBytes {
			fv.assert(fv.ghostTop(name))
		}
	}
	return Term{S: name, Sort: s}
}

// strConst returns a Bytes constant with the given content.
func (fv *FuncVC) strConst(v string) Term {
	save := fv.inBlocks
	fv.inBlocks = false // facts about shared symbols are visible on every path
	defer func() { fv.inBlocks = save }()
	return fv.strConst1(v)
}

func (fv *FuncVC) strConst1(v string) Term {
	if n, ok := fv.strConsts[v]; ok {
		return Term{S: n, Sort: SBytes}
	}
	fv.ensureSort(SBytes)
	name := fmt.Sprintf("str!%d", len(fv.strConsts))
	fv.strConsts[v] = name
	fv.declare(name, SBytes)
	t := Term{S: name, Sort: SBytes}
	cs := []string{app("=", fv.lenOf(t), fv.ilit(int64(len(v)))), app("=", fv.offOf(t), fv.ilit(0)), app("=", fv.capOf(t), fv.ilit(int64(len(v)))),
		app("=", fv.baseOf(t), "0")}
	for i := 0; i < len(v); i++ {
		cs = append(cs, app("=", app("select", fv.arrOf(t), fv.ilit(int64(i))), intLit(int64(v[i]), SByte, fv.Mode)))
	}
	fv.assert(smtAnd(cs...))
	return t
}

// ---------------------------------------------------------------------------
// Interface tags

func (fv *FuncVC) tagOf(t types.Type) int {
	k := strings.ReplaceAll(types.TypeString(t, nil), "byte", "uint8") // byte and uint8 are one type
	if n, ok := fv.tags[k]; ok {
		return n
	}
	n := len(fv.tags) + 1
	fv.tags[k] = n
	fv.tagTypes = append(fv.tagTypes, t)
	return n
}

func pointerShaped(t types.Type) bool {
	switch t.Underlying().(type) {
	case *types.Pointer, *types.Map, *types.Chan, *types.Signature:
		return true
	case *types.Basic:
		return t.Underlying().(*types.Basic).Kind() == types.UnsafePointer
	}
	return false
}

// box/unbox for non-pointer-shaped dynamic values
func (fv *FuncVC) boxFuncs(t types.Type) (string, string) {
	s := fv.sortOf(t)
	n := fmt.Sprintf("%d", fv.tagOf(t))
	b, u := "box_"+n, "unbox_"+n
	fv.declareFun(b, []string{s.smt(fv.Mode)}, "Int")
	fv.declareFun(u, []string{"Int"}, s.smt(fv.Mode))
	return b, u
}

// ---------------------------------------------------------------------------
// Heap access

func (fv *FuncVC) heapTerm(st *State, key string, s Sort) Term {
	if t, ok := st.heap[key]; ok {
		return t
	}
	// all states share the initial symbol
	fv.ensureSort(s)
	fv.heapSorts[key] = s
	name := "H_" + sanitize(key) + "!0"
	if !fv.declared[name] {
		fv.declared[name] = true
		fv.decls = append(fv.decls, fmt.Sprintf("(declare-const %s (Array Int %s))", name, s.smt(fv.Mode)))
	}
	t := Term{S: name, Sort: s}
	fv.entry.heap[key] = t
	st.heap[key] = t
	return t
}

func (fv *FuncVC) freshHeap(key string, s Sort) Term {
	fv.nfresh++
	fv.heapSorts[key] = s
	name := fmt.Sprintf("H_%s!%d", sanitize(key), fv.nfresh)
	fv.declared[name] = true
	fv.ensureSort(s)
	fv.decls = append(fv.decls, fmt.Sprintf("(declare-const %s (Array Int %s))", name, s.smt(fv.Mode)))
	return Term{S: name, Sort: s}
}

func heapKey(t types.Type, field string) string {
	return structName(t) + "." + field
}

// ghost scalar state (Int or Bool), shared initial symbol
func (fv *FuncVC) ghostTerm(st *State, key string, s Sort) Term {
	if t, ok := st.ghost[key]; ok {
		return t
	}
	name := "G_" + sanitize(key) + "!0"
	if !fv.declared[name] {
		fv.declared[name] = true
		fv.ensureSort(s)
		fv.decls = append(fv.decls, fmt.Sprintf("(declare-const %s %s)", name, s.smt(fv.Mode)))
	}
	t := Term{S: name, Sort: s}
	fv.entry.ghost[key] = t
	st.ghost[key] = t
	if key == "cov" {
		save := fv.inBlocks
		fv.inBlocks = false
		fv.assert(app("=", name, "0")) // nothing of the input is accounted for on entry
		fv.inBlocks = save
	}
	return t
}

func (fv *FuncVC) globalTerm(st *State, g *ssa.Global) Term {
	save := fv.inBlocks
	fv.inBlocks = false // facts about shared symbols are visible on every path
	defer func() { fv.inBlocks = save }()
	return fv.globalTerm1(st, g)
}

func (fv *FuncVC) globalTerm1(st *State, g *ssa.Global) Term {
	if t, ok := st.globals[g]; ok {
		return t
	}
	gt := g.Type().(*types.Pointer).Elem()
	s := fv.sortOf(gt)
	name := "Gl_" + sanitize(g.Pkg.Pkg.Name()+"."+g.Name()) + "!0"
	t := Term{S: name, Sort: s}
	if !fv.declared[name] {
		fv.declare(name, s)
		fv.assert(fv.wf(t, gt))
		if fv.Fn.Name() == "init" && fv.Fn.Pkg == g.Pkg && fv.Fn.Synthetic != "" {
			// package variables hold their zero value when the package initializer starts
			fv.assert(app("=", t.S, fv.zero(gt).S))
		}
		fv.assumeGlobalInvs(g, t)
	}
	fv.entry.globals[g] = t
	st.globals[g] = t
	return t
}

// ---------------------------------------------------------------------------
// Loads and stores through lvalues

func (fv *FuncVC) lvRoot(st *State, lv *LValue) Term {
	switch lv.Kind {
	case LAlloc:
		t, ok := st.cells[lv.Alloc]
		if !ok {
			// never stored: zero value
			t = fv.zero(lv.Alloc.Type().(*types.Pointer).Elem())
			st.cells[lv.Alloc] = t
		}
		return t
	case LHeap, LCell:
		h := fv.heapTerm(st, lv.HKey, lv.HSort)
		return Term{S: selStore(h.S, lv.Ref), Sort: lv.HSort}
	case LGlobal:
		return fv.globalTerm(st, lv.Global)
	case LElem:
		sl := lv.SliceT
		if o, ok := st.slices[lv.Slice]; ok {
			sl = o
		}
		return Term{S: fv.elemAt(sl, lv.Idx), Sort: fv.elemSort(sl.Sort)}
	}
	panic("lvRoot")
}

func (fv *FuncVC) selPath(t Term, path []pathElem) Term {
	for _, pe := range path {
		if pe.field >= 0 {
			t = Term{S: app(pe.name, t.S), Sort: pe.etype}
		} else {
			t = Term{S: app("select", t.S, pe.idx), Sort: pe.etype}
		}
	}
	return t
}

func (fv *FuncVC) updPath(root Term, path []pathElem, v Term) Term {
	if len(path) == 0 {
		return v
	}
	pe := path[0]
	if pe.field < 0 {
		inner := fv.updPath(Term{S: app("select", root.S, pe.idx), Sort: pe.etype}, path[1:], v)
		return Term{S: app("store", root.S, pe.idx, inner.S), Sort: root.Sort}
	}
	si := fv.structInfoOf(pe.gotype)
	var args []string
	for i, f := range si.fields {
		sel := fmt.Sprintf("S_%s_%s", si.sort.Name, f.Name())
		cur := Term{S: app(sel, root.S), Sort: si.fsorts[i]}
		if i == pe.field {
			args = append(args, fv.updPath(cur, path[1:], v).S)
		} else {
			args = append(args, cur.S)
		}
	}
	return Term{S: app("mk_S_"+si.sort.Name, args...), Sort: root.Sort}
}

func (fv *FuncVC) load(st *State, lv *LValue) Term {
	return fv.selPath(fv.lvRoot(st, lv), lv.Path)
}

func (fv *FuncVC) store(st *State, lv *LValue, v Term) {
	root := fv.lvRoot(st, lv)
	nv := fv.updPath(root, lv.Path, v)
	if len(lv.Path) > 0 && root.Sort.Kind == KStruct {
		// name the updated aggregate: nested updates otherwise grow exponentially
		n := fv.fresh("upd", root.Sort)
		n.Go = root.Go
		if n.Go == nil && lv.Kind == LAlloc {
			n.Go = lv.Alloc.Type().(*types.Pointer).Elem()
		}
		fv.assert(app("=", n.S, nv.S))
		fv.inheritSeqFacts(n, root, n.Go, 0)
		nv = n
	}
	if nv.Go == nil && lv.Kind == LAlloc && len(lv.Path) == 0 {
		nv.Go = lv.Alloc.Type().(*types.Pointer).Elem()
	}
	switch lv.Kind {
	case LAlloc:
		st.cells[lv.Alloc] = nv
	case LHeap, LCell:
		h := fv.heapTerm(st, lv.HKey, lv.HSort)
		st.heap[lv.HKey] = Term{S: app("store", h.S, lv.Ref, nv.S), Sort: lv.HSort}
	case LGlobal:
		st.globals[lv.Global] = nv
	case LElem:
		sl := lv.SliceT
		if o, ok := st.slices[lv.Slice]; ok {
			sl = o
		}
		dt := fv.sliceDT(sl.Sort)
		newArr := app("store", fv.arrOf(sl), fv.iadd(fv.offOf(sl), lv.Idx), nv.S)
		st.slices[lv.Slice] = fv.rebuildSlice(sl, map[string]string{"arr": newArr}, dt)
		fv.warn("in-place slice store at %s (value model: aliases of the slice are not updated)", fv.P.relPos(lv.Slice.Pos()))
	}
}

// rebuildSlice returns sl with some components replaced.
func (fv *FuncVC) rebuildSlice(sl Term, repl map[string]string, dt string) Term {
	comps := []string{"len", "arr", "off", "base", "cap"}
	if sl.Sort.Kind == KBytes {
		comps = append(comps, "g1", "g2", "g3")
	}
	var args []string
	for _, c := range comps {
		if r, ok := repl[c]; ok {
			args = append(args, r)
		} else {
			args = append(args, app(dt+"_"+c, sl.S))
		}
	}
	return Term{S: app("mk_"+dt, args...), Sort: sl.Sort}
}

// derefLV turns a pointer value into an lvalue for the pointee.
func (fv *FuncVC) derefLV(v Val, ptrType types.Type) *LValue {
	if v.LV != nil {
		return v.LV
	}
	pt, ok := ptrType.Underlying().(*types.Pointer)
	if !ok {
		fv.unsupported("dereference of non-pointer %s", ptrType)
	}
	elem := pt.Elem()
	s := fv.sortOf(elem)
	key := "cell." + sortTag(s, fv.Mode)
	if _, isStruct := elem.Underlying().(*types.Struct); isStruct && s.Kind == KStruct {
		// whole-struct access through a pointer: handled by callers
		// (loadStruct/storeStruct); here we return an LCell-like descriptor
		return &LValue{Kind: LCell, Ref: v.T.S, HKey: "struct." + structName(elem), HSort: s, Type: elem}
	}
	return &LValue{Kind: LCell, Ref: v.T.S, HKey: key, HSort: s, Type: elem}
}

// loadStructRef assembles a struct value from the per-field heap maps.
func (fv *FuncVC) loadStructRef(st *State, ref string, t types.Type) Term {
	si := fv.structInfoOf(t)
	if len(si.fields) == 0 {
		return Term{S: "mk_S_" + si.sort.Name, Sort: si.sort}
	}
	var args []string
	for i, f := range si.fields {
		h := fv.heapTerm(st, heapKey(t, f.Name()), si.fsorts[i])
		args = append(args, selStore(h.S, ref))
	}
	return Term{S: app("mk_S_"+si.sort.Name, args...), Sort: si.sort}
}

func (fv *FuncVC) storeStructRef(st *State, ref string, t types.Type, v Term) {
	si := fv.structInfoOf(t)
	for i, f := range si.fields {
		k := heapKey(t, f.Name())
		h := fv.heapTerm(st, k, si.fsorts[i])
		st.heap[k] = Term{S: app("store", h.S, ref, app(fmt.Sprintf("S_%s_%s", si.sort.Name, f.Name()), v.S)), Sort: si.fsorts[i]}
	}
}

// ---------------------------------------------------------------------------
// Constants

func (fv *FuncVC) constVal(c *ssa.Const) Term {
	t := c.Type()
	s := fv.sortOf(t)
	if c.Value == nil {
		return fv.zero(t)
	}
	switch s.Kind {
	case KBool:
		if constant.BoolVal(c.Value) {
			return Term{S: "true", Sort: s}
		}
		return Term{S: "false", Sort: s}
	case KInt:
		if s.Signed {
			v, _ := constant.Int64Val(constant.ToInt(c.Value))
			return Term{S: intLit(v, s, fv.Mode), Sort: s}
		}
		v, _ := constant.Uint64Val(constant.ToInt(c.Value))
		return Term{S: uintLit(v, s, fv.Mode), Sort: s}
	case KBytes:
		return fv.strConst(constant.StringVal(c.Value))
	case KFloat:
		f, _ := constant.Float64Val(c.Value)
		name := "fconst_" + sanitize(strings.NewReplacer("+", "p", "-", "m", ".", "d").Replace(fmt.Sprintf("%d_%g", s.W, f)))
		if fv.fp {
			fv.ensureSort(s)
			fv.fpDefine(name, nil, s.smt(fv.Mode), fpLiteral(c.Value, s.W))
			return Term{S: name, Sort: s}
		}
		fv.declare(name, s)
		return Term{S: name, Sort: s}
	}
	fv.unsupported("constant %s of type %s", c, t)
	return Term{}
}

func sortedAllocs(m map[*ssa.Alloc]bool) []*ssa.Alloc {
	var ks []*ssa.Alloc
	for k := range m {
		ks = append(ks, k)
	}
	sort.Slice(ks, func(i, j int) bool {
		if ks[i].Pos() != ks[j].Pos() {
			return ks[i].Pos() < ks[j].Pos()
		}
		return ks[i].Name() < ks[j].Name()
	})
	return ks
}

func sortedGlobals(m map[*ssa.Global]bool) []*ssa.Global {
	var ks []*ssa.Global
	for k := range m {
		ks = append(ks, k)
	}
	sort.Slice(ks, func(i, j int) bool { return ks[i].String() < ks[j].String() })
	return ks
}

func sortedValues(m map[ssa.Value]bool) []ssa.Value {
	var ks []ssa.Value
	for k := range m {
		ks = append(ks, k)
	}
	sort.Slice(ks, func(i, j int) bool {
		if ks[i].Pos() != ks[j].Pos() {
			return ks[i].Pos() < ks[j].Pos()
		}
		return ks[i].Name() < ks[j].Name()
	})
	return ks
}

func sortedKeys(m map[string]bool) []string {
	var ks []string
	for k := range m {
		ks = append(ks, k)
	}
	sort.Strings(ks)
	return ks
}

// forallCopy: dst[dstStart+k] == src[srcStart+k] for 0 <= k < n, stated over
// absolute positions of dst's backing array so that the trigger is a plain
// select term.
func (fv *FuncVC) forallCopy(dst Term, dstStart string, src Term, srcStart string, n string) string {
	fv.nfresh++
	j := fmt.Sprintf("j%d", fv.nfresh)
	lo := fv.iadd(fv.offOf(dst), dstStart)
	hi := fv.iadd(lo, n)
	srcIdx := fv.iadd(fv.isub(j, lo), fv.iadd(fv.offOf(src), srcStart))
	sel := app("select", fv.arrOf(dst), j)
	return fmt.Sprintf("(forall ((%s %s)) (! (=> (and %s %s) (= %s %s)) :pattern (%s)))", j, idxSort(fv.Mode), fv.ile(lo, j), fv.ilt(j, hi), sel, app("select", fv.arrOf(src), srcIdx), sel)
}

// splitPoint walks up from b through single-predecessor blocks; if it meets
// a join with many incoming arms (a big switch), obligations stated below it
// are split per arm.
func (fv *FuncVC) splitPoint(b *ssa.BasicBlock) (*ssa.BasicBlock, []int) {
	var chain []int
	for steps := 0; steps < 8; steps++ {
		var preds []*ssa.BasicBlock
		for _, p := range b.Preds {
			if !fv.backEdges[[2]int{p.Index, b.Index}] {
				preds = append(preds, p)
			}
		}
		if len(preds) >= 8 && fv.loopHeads[b] == 0 {
			return b, chain
		}
		if len(preds) != 1 || fv.loopHeads[b] > 0 {
			return nil, nil
		}
		chain = append(chain, b.Index)
		b = preds[0]
	}
	return nil, nil
}

// pfx(a, b): b is a prefix of a, as an opaque predicate; sfx(a, n, b):
// a[n : n+len(b)] == b. Both are derived at appends and from callee
// postconditions; the generator supplies the needed *ground instances* of
// their axioms (length, element-wise meaning, reflexivity, transitivity,
// transfer of content along prefixes) for the term pairs that occur, instead
// of leaving quantified axioms over sequence values to the solver. This keeps
// "nothing before len(dst) changed" obligations propositional and fast.
type pfxPair struct{ a, b Term }
type sfxFact struct {
	a Term
	n string
	b Term
}

func (fv *FuncVC) pfxName(s Sort) string {
	dt := fv.sliceDT(s)
	name := "pfx_" + dt
	if !fv.declared[name] {
		fv.declared[name] = true
		fv.ensureSort(s)
		fv.decls = append(fv.decls, fmt.Sprintf("(declare-fun %s (%s %s) Bool)", name, dt, dt))
	}
	return name
}

func (fv *FuncVC) sfxName(s Sort) string {
	dt := fv.sliceDT(s)
	name := "sfx_" + dt
	if !fv.declared[name] {
		fv.declared[name] = true
		fv.ensureSort(s)
		fv.decls = append(fv.decls, fmt.Sprintf("(declare-fun %s (%s %s %s) Bool)", name, dt, idxSort(fv.Mode), dt))
	}
	return name
}

// lemma instances are asserted in the block where the terms are first needed
// (visible to every obligation below it); the same instance is emitted again
// when another branch needs it.
func (fv *FuncVC) globally(f func()) { f() }

func (fv *FuncVC) blockKey() string {
	if fv.curBlock != nil && fv.inBlocks {
		return fmt.Sprintf("@b%d", fv.curBlock.Index)
	}
	return "@entry"
}

func (fv *FuncVC) pfx(a, b Term) string {
	p := fv.pfxName(a.Sort)
	t := app(p, a.S, b.S)
	key := "pfxpair:" + a.S + "|" + b.S + fv.blockKey()
	if fv.declared[key] || len(fv.pfxPairs) > 2000 {
		return t
	}
	fv.declared[key] = true
	fv.globally(func() {
		fv.assert(smtImp(t, fv.ile(fv.lenOf(b), fv.lenOf(a))))
		fv.assert(smtImp(t, fv.forallCopy(a, fv.ilit(0), b, fv.ilit(0), fv.lenOf(b))))
		fv.assert(smtImp(app("=", a.S, b.S), t))
	})
	old := append([]pfxPair{}, fv.pfxPairs...)
	dup := false
	for _, q := range old {
		if q.a.S == a.S && q.b.S == b.S {
			dup = true
		}
	}
	if !dup {
		fv.pfxPairs = append(fv.pfxPairs, pfxPair{a, b})
	}
	for _, q := range old {
		if !sameSort(q.a.Sort, a.Sort) {
			continue
		}
		if q.a.S == b.S { // a >= b >= q.b
			t2 := fv.pfx(a, q.b)
			fv.globally(func() { fv.assert(smtImp(smtAnd(t, app(p, q.a.S, q.b.S)), t2)) })
		}
		if q.b.S == a.S { // q.a >= a >= b
			t2 := fv.pfx(q.a, b)
			fv.globally(func() { fv.assert(smtImp(smtAnd(app(p, q.a.S, q.b.S), t), t2)) })
		}
	}
	for _, f := range append([]sfxFact{}, fv.sfxFacts...) {
		if f.a.S == b.S && sameSort(f.a.Sort, a.Sort) { // content of b is content of a
			t2 := fv.sfx(a, f.n, f.b)
			fv.globally(func() { fv.assert(smtImp(smtAnd(t, app(fv.sfxName(a.Sort), f.a.S, f.n, f.b.S)), t2)) })
		}
	}
	return t
}

func (fv *FuncVC) sfx(a Term, n string, b Term) string {
	sn := fv.sfxName(a.Sort)
	t := app(sn, a.S, n, b.S)
	key := "sfxfact:" + a.S + "|" + n + "|" + b.S + fv.blockKey()
	if fv.declared[key] || len(fv.sfxFacts) > 2000 {
		return t
	}
	fv.declared[key] = true
	fv.globally(func() {
		fv.assert(smtImp(t, smtAnd(fv.ile(fv.ilit(0), n), fv.ile(fv.iadd(n, fv.lenOf(b)), fv.lenOf(a)))))
		fv.assert(smtImp(t, fv.forallCopy(a, n, b, fv.ilit(0), fv.lenOf(b))))
	})
	dupf := false
	for _, f := range fv.sfxFacts {
		if f.a.S == a.S && f.n == n && f.b.S == b.S {
			dupf = true
		}
	}
	if !dupf {
		fv.sfxFacts = append(fv.sfxFacts, sfxFact{a, n, b})
	}
	for _, q := range append([]pfxPair{}, fv.pfxPairs...) {
		if q.b.S == a.S && sameSort(q.a.Sort, a.Sort) {
			t2 := fv.sfx(q.a, n, b)
			fv.globally(func() { fv.assert(smtImp(smtAnd(app(fv.pfxName(a.Sort), q.a.S, q.b.S), t), t2)) })
		}
	}
	// the same content at an equal offset (offsets are often equal only modulo arithmetic)
	for _, f := range fv.sfxFacts {
		if f.a.S == a.S && f.b.S == b.S && f.n != n {
			fv.globally(func() { fv.assert(smtImp(smtAnd(app(sn, f.a.S, f.n, f.b.S), app("=", f.n, n)), t)) })
		}
	}
	return t
}
