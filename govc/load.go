package main

import (
	"fmt"
	"go/token"
	"go/types"
	"os"
	"sort"
	"strings"

	"golang.org/x/tools/go/packages"
	"golang.org/x/tools/go/ssa"
	"golang.org/x/tools/go/ssa/ssautil"
)

type Prog struct {
	Fset          *token.FileSet
	SSA           *ssa.Program
	Pkgs          []*packages.Package
	ModPath       string
	Root          string
	VerifRoot     string
	Tags          string
	FnByKey       map[string]*ssa.Function
	AllFns        []*ssa.Function
	CS            *Contracts
	Effects       map[*ssa.Function]*Effect
	HeapKeyType   map[string]types.Type
	StoredGlobals map[*ssa.Global][]*ssa.Function
	TrackedSigs   map[string]trackedSig
	Notes         []string
}

func loadProgram(root, tags string) (*Prog, error) {
	cfg := &packages.Config{
		Mode:       packages.LoadAllSyntax | packages.NeedModule,
		Dir:        root,
		BuildFlags: []string{"-tags=" + tags},
		Env:        append(os.Environ(), "GOFLAGS=-mod=mod", "GOPROXY=off", "GOSUMDB=off", "GOTOOLCHAIN=local"),
	}
	pkgs, err := packages.Load(cfg, "./...")
	if err != nil {
		return nil, err
	}
	var errs []string
	for _, p := range pkgs {
		for _, e := range p.Errors {
			errs = append(errs, e.Error())
		}
	}
	if len(errs) > 0 {
		return nil, fmt.Errorf("package errors (does /repo build with -tags %s?):\n%s", tags, strings.Join(errs, "\n"))
	}
	prog, _ := ssautil.AllPackages(pkgs, ssa.InstantiateGenerics)
	prog.Build()
	p := &Prog{Fset: pkgs[0].Fset, SSA: prog, Pkgs: pkgs, Root: root, Tags: tags, FnByKey: map[string]*ssa.Function{}}
	for _, pk := range pkgs {
		if pk.Module != nil && pk.Module.Main {
			p.ModPath = pk.Module.Path
		}
	}
	for fn := range ssautil.AllFunctions(prog) {
		if fn.Pkg == nil && fn.Synthetic != "" && fn.Parent() == nil {
			// wrappers and bound-method thunks
			continue
		}
		p.AllFns = append(p.AllFns, fn)
		p.FnByKey[fn.String()] = fn
	}
	sort.Slice(p.AllFns, func(i, j int) bool { return p.AllFns[i].String() < p.AllFns[j].String() })
	return p, nil
}

func (p *Prog) inModule(fn *ssa.Function) bool {
	if fn == nil {
		return false
	}
	pk := fn.Pkg
	if pk == nil && fn.Parent() != nil {
		pk = fn.Parent().Pkg
	}
	if pk == nil || pk.Pkg == nil {
		return false
	}
	path := pk.Pkg.Path()
	return path == p.ModPath || strings.HasPrefix(path, p.ModPath+"/")
}

func (p *Prog) relPos(pos token.Pos) string {
	if !pos.IsValid() {
		return "(no position)"
	}
	ps := p.Fset.Position(pos)
	f := strings.TrimPrefix(ps.Filename, p.Root+"/")
	return fmt.Sprintf("%s:%d", f, ps.Line)
}

// ---------------------------------------------------------------------------
// Go type -> Sort

func isByte(t types.Type) bool {
	b, ok := t.Underlying().(*types.Basic)
	return ok && (b.Kind() == types.Uint8 || b.Kind() == types.Byte)
}

func structName(t types.Type) string {
	switch t := t.(type) {
	case *types.Named:
		o := t.Obj()
		n := o.Name()
		if o.Pkg() != nil {
			n = o.Pkg().Name() + "_" + n
		}
		return n
	case *types.Alias:
		return structName(types.Unalias(t))
	}
	s := types.TypeString(t, func(*types.Package) string { return "" })
	r := strings.NewReplacer(" ", "_", "{", "L", "}", "R", ";", "_", "*", "P", "[", "B", "]", "E", ".", "_", "(", "_", ")", "_", ",", "_", "\"", "", ":", "_")
	return "anon_" + r.Replace(s)
}

func sortOfType(t types.Type) Sort {
	t = types.Unalias(t)
	switch u := t.Underlying().(type) {
	case *types.Basic:
		switch {
		case u.Info()&types.IsBoolean != 0:
			return SBool
		case u.Info()&types.IsInteger != 0:
			w := 64
			switch u.Kind() {
			case types.Int8, types.Uint8:
				w = 8
			case types.Int16, types.Uint16:
				w = 16
			case types.Int32, types.Uint32:
				w = 32
			}
			return Sort{Kind: KInt, W: w, Signed: u.Info()&types.IsUnsigned == 0}
		case u.Info()&types.IsString != 0:
			return SBytes
		case u.Info()&types.IsFloat != 0:
			if u.Kind() == types.Float32 {
				return Sort{Kind: KFloat, W: 32}
			}
			return Sort{Kind: KFloat, W: 64}
		case u.Kind() == types.UnsafePointer:
			return SRef
		case u.Kind() == types.UntypedNil:
			return SRef
		}
		return Sort{Kind: KOpaque, Name: "basic_" + u.Name()}
	case *types.Slice:
		if isByte(u.Elem()) {
			return SBytes
		}
		e := sortOfType(u.Elem())
		return Sort{Kind: KSlice, Elem: &e}
	case *types.Array:
		e := sortOfType(u.Elem())
		return Sort{Kind: KArray, Elem: &e, N: u.Len()}
	case *types.Pointer, *types.Map, *types.Chan, *types.Signature:
		return SRef
	case *types.Interface:
		return SIface
	case *types.Struct:
		if opaqueStruct(t) {
			return Sort{Kind: KOpaque, Name: structName(t)}
		}
		return Sort{Kind: KStruct, Name: structName(t)}
	case *types.Tuple:
		return Sort{Kind: KTuple}
	}
	return Sort{Kind: KOpaque, Name: structName(t)}
}

// opaqueStruct reports struct types that are modelled as uninterpreted sorts
// (library types whose fields the verifier never looks into).
func opaqueStruct(t types.Type) bool {
	n, ok := types.Unalias(t).(*types.Named)
	if !ok || n.Obj().Pkg() == nil {
		return false
	}
	switch n.Obj().Pkg().Path() {
	case "time", "sync", "sync/atomic", "bytes", "bufio", "net", "reflect", "os", "context", "net/http", "net/url", "strings", "encoding/json", "io", "math/rand", "log":
		return true
	}
	return false
}
