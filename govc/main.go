package main

import (
	"encoding/json"
	"flag"
	"fmt"
	"os"
	"path/filepath"
	"sort"
	"strconv"
	"strings"
	"time"

	"golang.org/x/tools/go/ssa"
)

type PropConfig struct {
	ID      string   `json:"id"`
	Tags    []string `json:"tags"`    // extra build-tag sets to run under (each entry is a comma list; "" = default json build)
	Sweeps  []string `json:"sweeps"`  // names of zero-annotation sweeps
	Level   string   `json:"level"`   // evidence level
	Trusted []string `json:"trusted"` // standing assumptions for the evidence
	MinObl  int      `json:"min_obligations"`
	Include []string `json:"include_props"` // obligations tagged with these properties also count (same code, other build)
	Replay  string   `json:"replay"`        // argument-less replay template run for a failed obligation whose contract names none
}

// currentTier: quick or thorough (sweeps that have a deeper setting read it).
var currentTier = "quick"

// propReplay: property id -> default replay template.
var propReplay = map[string]string{}

func loadPropConfig(verifDir, id string) (*PropConfig, error) {
	data, err := os.ReadFile(filepath.Join(verifDir, "props.json"))
	if err != nil {
		return nil, err
	}
	var all []PropConfig
	defer func() {
		for _, pc := range all {
			if pc.Replay != "" {
				propReplay[pc.ID] = pc.Replay
			}
		}
	}()
	if err := json.Unmarshal(data, &all); err != nil {
		return nil, fmt.Errorf("props.json: %v", err)
	}
	for i := range all {
		if all[i].ID == id {
			return &all[i], nil
		}
	}
	return nil, fmt.Errorf("property %s is not configured in props.json", id)
}

func main() {
	if len(os.Args) < 2 {
		fmt.Fprintln(os.Stderr, "usage: govc check|dump ...")
		os.Exit(2)
	}
	defer cleanupScratch()
	switch os.Args[1] {
	case "check":
		os.Exit(cmdCheck(os.Args[2:]))
	case "dump":
		os.Exit(cmdDump(os.Args[2:]))
	case "baseline":
		os.Exit(cmdBaseline(os.Args[2:]))
	case "replay":
		os.Exit(cmdReplay(os.Args[2:]))
	default:
		fmt.Fprintln(os.Stderr, "unknown command", os.Args[1])
		os.Exit(2)
	}
}

func setup(repo, verif, tags string) (*Prog, error) {
	t := "verif"
	if tags != "" {
		t += "," + tags
	}
	p, err := loadProgram(repo, t)
	if err != nil {
		return nil, err
	}
	cs, err := loadAllContracts(repo, p.ModPath, filepath.Join(verif, "govc", "trusted"), strings.Contains(tags, "binary_log"))
	if err != nil {
		return nil, err
	}
	p.CS = cs
	p.VerifRoot = verif
	p.Notes = p.synthesizeFrontends()
	p.computeEffects()
	return p, nil
}

// contractsFor lists the function contracts that serve property id.
func (p *Prog) contractsFor(ids ...string) []*Contract {
	var out []*Contract
	for _, c := range p.CS.ByKey {
		if c.Kind != "func" || c.Trusted {
			continue
		}
		for _, id := range ids {
			if contractServes(c, id) {
				out = append(out, c)
				break
			}
		}
	}
	sort.Slice(out, func(i, j int) bool { return out[i].Key < out[j].Key })
	return out
}

func contractServes(c *Contract, id string) bool {
	if hasProp(c.Props, id) {
		return true
	}
	for _, cl := range c.Ensures {
		if hasProp(cl.Props, id) {
			return true
		}
	}
	for _, l := range c.Loops {
		for _, cl := range l.Invs {
			if hasProp(cl.Props, id) {
				return true
			}
		}
	}
	return false
}

type checkResult struct {
	fvs      []*FuncVC
	errors   []string
	reports  []FuncReport
	extraObl []*Obligation // obligations of sweeps
	trusted  map[string]bool
	notes    []string
}

func cmdCheck(args []string) int {
	fs := flag.NewFlagSet("check", flag.ExitOnError)
	prop := fs.String("prop", "", "property id")
	tier := fs.String("tier", "quick", "quick|thorough")
	repo := fs.String("repo", "/repo", "repository root")
	verif := fs.String("verif", "/verif", "verif root")
	verbose := fs.Bool("v", false, "verbose")
	only := fs.String("only", "", "restrict to functions whose key contains this string (debugging; evidence not written)")
	dumpObl := fs.String("dumpobl", "", "write the SMT query of the obligations whose name contains this string to /tmp/govc_query.smt2")
	noev := fs.Bool("noevidence", false, "do not rewrite the evidence file (used when checking a scratch copy)")
	fs.Parse(args)
	if *prop == "" {
		fmt.Fprintln(os.Stderr, "govc check: -prop required")
		return 2
	}
	seed := 0
	if s := os.Getenv("VERIF_SEED"); s != "" {
		seed, _ = strconv.Atoi(s)
	}
	pc, err := loadPropConfig(*verif, *prop)
	if err != nil {
		fmt.Fprintln(os.Stderr, "govc:", err)
		return 2
	}
	currentTier = *tier
	cfg := RunConfig{Prop: *prop, Tier: *tier, TimeoutS: 20, Workers: 6, Verbose: *verbose, DumpObl: *dumpObl}
	cfg.Known = loadKnownFindings(filepath.Join(*verif, "known_findings.json"))
	if *tier == "thorough" {
		cfg.TimeoutS = 60
		cfg.All = true
		cfg.Workers = 5
	}
	tagSets := pc.Tags
	if len(tagSets) == 0 {
		tagSets = []string{""}
	}
	total := &checkResult{trusted: map[string]bool{}}
	for _, tags := range tagSets {
		p, err := setup(*repo, *verif, tags)
		if err != nil {
			fmt.Fprintln(os.Stderr, "govc: cannot load", *repo, ":", err)
			return 2
		}
		r := runProperty(p, pc, cfg, tags, *only)
		total.fvs = append(total.fvs, r.fvs...)
		total.errors = append(total.errors, r.errors...)
		total.reports = append(total.reports, r.reports...)
		total.extraObl = append(total.extraObl, r.extraObl...)
		total.notes = append(total.notes, r.notes...)
		for k := range r.trusted {
			total.trusted[k] = true
		}
	}
	return report(total, pc, cfg, *verif, seed, *only != "" || *noev)
}

func runProperty(p *Prog, pc *PropConfig, cfg RunConfig, tags string, only string) *checkResult {
	r := &checkResult{trusted: map[string]bool{}}
	suffix := ""
	if tags != "" {
		suffix = "[" + tags + "]"
	}
	ids := append([]string{pc.ID}, pc.Include...)
	for _, c := range p.contractsFor(ids...) {
		if only != "" && !strings.Contains(c.Key, only) {
			continue
		}
		if t := c.Flags["tags"]; t != "" {
			// a contract may be restricted to one build: flag tags binary_log / flag tags !binary_log
			if strings.HasPrefix(t, "!") {
				if tags == t[1:] {
					continue
				}
			} else if tags != t {
				continue
			}
		}
		fn := p.FnByKey[c.Key]
		if fn == nil {
			if c.Flags["optional"] != "" {
				continue
			}
			// the function the contract is written for is gone (a closure was inlined or renumbered, a helper
			// renamed): harmless refactoring or a break of the property? The replay decides, as for a contract
			// that no longer fits; without a replay, or if the replay passes, it stays a CHECK-ERROR.
			msg := fmt.Sprintf("%s:%d: contract for %s: no such function in the %s build", c.File, c.Line, c.Key, buildName(tags))
			tmpl := ""
			if c.Flags["replay"] != "" && len(strings.Fields(c.Flags["replay"])) == 1 {
				tmpl = c.Flags["replay"]
			} else if propReplay[pc.ID] != "" {
				tmpl = propReplay[pc.ID]
			}
			if tmpl != "" && len(p.AllFns) > 0 && hasProp(c.Props, pc.ID) {
				var host *ssa.Function
				for _, f := range p.AllFns {
					if len(f.Blocks) > 0 && p.inModule(f) {
						host = f
						break
					}
				}
				if host != nil {
					hc := &Contract{Key: host.String(), Kind: "func", Pkg: p.ModPath, Mode: ModeInt, Props: []string{pc.ID}, Loops: map[int]*LoopSpec{}, Flags: map[string]string{}, File: c.File}
					hfv := newFuncVC(p, host, hc)
					hfv.Name = strings.ReplaceAll(c.Key, p.ModPath+"/", "") + suffix
					hfv.activeProp = pc.ID
					hfv.replayTemplate = tmpl
					o := &Obligation{Name: hfv.Name + "#contract-applies", Kind: "contract", Props: []string{pc.ID}, Where: fmt.Sprintf("%s:%d", c.File, c.Line), Src: msg,
						Reach: "true", Goal: "false", Func: hfv.Name, fv: hfv, candidate: true, Block: -1}
					rf := replayFile{}
					tryReplay("/verif", pc.ID, o, &rf)
					if o.replayed {
						o.Status = "failed"
						o.Res = SolveResult{Verdict: VUnknown, All: map[string]string{"contract": msg}}
						r.extraObl = append(r.extraObl, o)
						continue
					}
				}
			}
			r.errors = append(r.errors, msg)
			continue
		}
		fv := newFuncVC(p, fn, c)
		fv.Name += suffix
		fv.activeProp = pc.ID
		fv.setupStream()
		if err := fv.translate(); err != nil {
			tmplForFallback := ""
			if c.Flags["replay"] != "" && len(strings.Fields(c.Flags["replay"])) == 1 {
				tmplForFallback = c.Flags["replay"]
			} else if propReplay[pc.ID] != "" {
				tmplForFallback = propReplay[pc.ID]
			}
			if tmplForFallback != "" {
				// the contract no longer fits the function (a name it mentions is gone, ...). Whether that is
				// a harmless refactoring or a break of the property is decided by the property-level replay.
				fv.replayTemplate = tmplForFallback
				o := &Obligation{Name: fv.Name + "#contract-applies", Kind: "contract", Props: []string{pc.ID}, Where: p.relPos(fn.Pos()), Src: err.Error(),
					Reach: "true", Goal: "false", Func: fv.Name, fv: fv, candidate: true, Block: -1}
				rf := replayFile{}
				tryReplay("/verif", pc.ID, o, &rf)
				if o.replayed {
					o.Status = "failed"
					o.Res = SolveResult{Verdict: VUnknown, All: map[string]string{"contract": err.Error()}}
					r.extraObl = append(r.extraObl, o)
					continue
				}
			}
			r.errors = append(r.errors, err.Error())
			r.reports = append(r.reports, FuncReport{Name: fv.Name, Arith: fv.Mode.String(), Error: err.Error()})
			continue
		}
		// keep only this property's obligations
		var keep []*Obligation
		for _, o := range fv.obls {
			for _, id := range ids {
				if hasProp(o.Props, id) {
					keep = append(keep, o)
					break
				}
			}
		}
		fv.obls = keep
		// vacuity probe: the function's assumptions are satisfiable and an exit is reachable
		fv.addProbes()
		r.fvs = append(r.fvs, fv)
	}
	for _, sw := range pc.Sweeps {
		runSweep(p, pc, sw, tags, r)
	}
	discharge(r.fvs, cfg)
	for _, fv := range r.fvs {
		for k := range fv.trustedUse {
			r.trusted[k] = true
		}
	}
	return r
}

func buildName(tags string) string {
	if tags == "" {
		return "default (JSON)"
	}
	return tags
}

func (fv *FuncVC) addProbes() {
	if len(fv.obls) == 0 {
		return
	}
	var exits []string
	for _, b := range fv.Fn.Blocks {
		if len(b.Instrs) == 0 {
			continue
		}
		switch b.Instrs[len(b.Instrs)-1].(type) {
		case *ssa.Return, *ssa.Panic:
			if r, ok := fv.reach[b]; ok {
				exits = append(exits, r)
			}
		}
	}
	o := &Obligation{Name: fv.Name + "#probe(exit-reachable)", Kind: "probe", Props: []string{fv.activeProp}, Where: fv.P.relPos(fv.Fn.Pos()),
		NAssert: len(fv.asserts), Reach: smtOr(exits...), Goal: "false", Func: fv.Name, Probe: true, Block: -1,
		Src: "vacuity probe: preconditions, invariants and assumed callee contracts are jointly satisfiable and some exit is reachable"}
	fv.obls = append(fv.obls, o)
	// cover probes: the antecedent of every postcondition `A ==> B` of this property can hold at a normal return
	if fv.C != nil {
		for _, e := range fv.C.Ensures {
			rs := fv.covers[e]
			if len(rs) == 0 {
				continue
			}
			mine := len(e.Props) == 0 || hasProp(e.Props, fv.activeProp)
			if !mine {
				continue
			}
			c := &Obligation{Name: fmt.Sprintf("%s#cover(post %d)", fv.Name, e.Idx), Kind: "cover", Props: []string{fv.activeProp}, Where: fv.P.relPos(fv.Fn.Pos()),
				NAssert: len(fv.asserts), Reach: smtOr(rs...), Goal: "false", Func: fv.Name, Probe: true, Block: -1,
				Src: "cover probe: the antecedent of `" + e.Src + "` is satisfiable at a normal return (a postcondition whose antecedent can never hold says nothing)"}
			fv.obls = append(fv.obls, c)
		}
	}
}

func report(r *checkResult, pc *PropConfig, cfg RunConfig, verif string, seed int, debug bool) int {
	kfs := loadKnownFindings(filepath.Join(verif, "known_findings.json"))
	var all []*Obligation
	funcs := map[string]*FuncReport{}
	var order []string
	for _, fv := range r.fvs {
		fr := &FuncReport{Name: fv.Name, Arith: fv.Mode.String(), Warnings: fv.warnings, Unmodelled: sortedKeys(fv.unmodelled)}
		funcs[fv.Name] = fr
		order = append(order, fv.Name)
		for _, o := range fv.obls {
			all = append(all, o)
			if o.Probe {
				continue
			}
			fr.Obligations++
			if o.Status == "discharged" {
				fr.Discharged++
			}
		}
	}
	all = append(all, r.extraObl...)
	nObl, nDis, nProbe := 0, 0, 0
	solverTime := 0.0
	bySolver := map[string]int{}
	var failed, checkErrs []*Obligation
	for _, o := range all {
		if o.Probe {
			nProbe++
			if o.Status == "probe-failed" {
				checkErrs = append(checkErrs, o)
			}
			continue
		}
		nObl++
		solverTime += o.Res.Time
		if o.Status == "discharged" {
			nDis++
			bySolver[o.Res.Solver]++
		} else if strings.HasPrefix(o.Status, "error") {
			checkErrs = append(checkErrs, o)
		} else {
			failed = append(failed, o)
		}
	}
	sortObls(failed)
	exit := 0
	violations := 0
	known := 0
	undecided := 0
	undecidedSeen := map[string]bool{}
	for _, o := range failed {
		if k := matchKnown(kfs, pc.ID, o.Name); k != nil {
			fmt.Printf("KNOWN-FINDING: property=%s %s [%s]\n", pc.ID, k.What, o.Name)
			known++
			continue
		}
		path := writeReplay(verif, pc.ID, o)
		if nh := newHelpers(verif, o); len(nh) > 0 && !o.replayed && o.replayPassed {
			// Modular verification knows a callee by its contract only. A helper that the pinned tree does not
			// have (extracted by the change under check) has none, so its results and effects are arbitrary
			// and the caller's obligations cannot be decided -- by a harmless extraction as by a harmful
			// one. The replay ran on the real code and passed: undecided, not a violation.
			undecided++
			if undecidedSeen[o.Func] {
				continue
			}
			undecidedSeen[o.Func] = true
			fmt.Printf("CHECK-ERROR property=%s %s: undecided: %s now calls %s, which the pinned tree does not have and which has no contract; the replay passes on the real code (replay file %s). Give the helper a contract.\n", pc.ID, o.Name, o.Func, strings.Join(nh, ", "), path)
			continue
		}
		violations++
		tail := ""
		if !o.replayed {
			tail = " no-failing-input-found"
		}
		fmt.Printf("VIOLATION property=%s replay=%s obligation=%s at %s (%s)%s\n", pc.ID, path, o.Name, o.Where, o.Status, tail)
		if o.Src != "" {
			fmt.Printf("  spec: %s\n", o.Src)
		}
		exit = 1
	}
	if undecided > 0 && exit == 0 {
		exit = 2
	}
	for _, e := range r.errors {
		fmt.Printf("CHECK-ERROR property=%s %s\n", pc.ID, e)
		exit = 2
	}
	for _, o := range checkErrs {
		fmt.Printf("CHECK-ERROR property=%s %s: %s\n", pc.ID, o.Name, o.Status)
		exit = 2
	}
	if nObl == 0 || (pc.MinObl > 0 && nObl < pc.MinObl && !debug) {
		fmt.Printf("CHECK-ERROR property=%s only %d obligations generated (expected at least %d): the check cannot vouch for the property\n", pc.ID, nObl, pc.MinObl)
		exit = 2
	}
	if violations > 0 && exit == 2 {
		exit = 1
	}
	wall := time.Since(startTime).Seconds()
	fmt.Printf("%s %s: %d functions under contract, %d obligations, %d discharged, %d known findings, %d violations, %d vacuity probes, solver time %.1fs, wall %.1fs\n",
		pc.ID, cfg.Tier, len(r.fvs), nObl, nDis, known, violations, nProbe, solverTime, wall)
	if cfg.Verbose {
		for _, o := range all {
			fmt.Printf("  %-12s %-8s %6.2fs %s\n", o.Status, o.Res.Solver, o.Res.Time, o.Name)
		}
	}
	if debug {
		return exit
	}
	// evidence
	var samples []oblSample
	step := len(all)/12 + 1
	for i := 0; i < len(all); i += step {
		o := all[i]
		samples = append(samples, oblSample{Name: o.Name, Where: o.Where, Spec: o.Src, Status: o.Status, Solver: o.Res.Solver, TimeS: o.Res.Time, SMTSize: len(o.Query)})
	}
	var frs []FuncReport
	for _, n := range order {
		frs = append(frs, *funcs[n])
	}
	frs = append(frs, r.reports...)
	trusted := sortedKeys(r.trusted)
	trusted = append(trusted, pc.Trusted...)
	if trusted == nil {
		trusted = []string{}
	}
	level := pc.Level
	if level == "" {
		level = "proof"
	}
	cov := map[string]interface{}{
		"obligations":              nObl,
		"discharged":               nDis + known,
		"discharged_by_solver":     nDis,
		"known_findings_matched":   known,
		"checker_cmd":              fmt.Sprintf("/verif/bin/govc check -prop %s -tier %s (VCs from go/ssa of /repo's working tree; z3 5.1.0, z3 4.8.12, cvc5 1.0.3 raced, %ds each)", pc.ID, cfg.Tier, cfg.TimeoutS),
		"trusted_base":             trusted,
		"functions_under_contract": frs,
		"by_backend":               bySolver,
		"solver_time_s":            solverTime,
		"vacuity_probes":           nProbe,
		"samples":                  samples,
		"notes":                    r.notes,
		"evaluations":              nObl,
		"distinct_nontrivial":      nObl,
		"rule":                     "one SMT query per contract conjunct / safety condition of each function under contract; every query is distinct by construction (different goal or path)",
	}
	ev := &Evidence{PropertyID: pc.ID, Tier: cfg.Tier, Seed: seed, Level: level, Coverage: cov, Assumptions: trusted, WallS: wall, Violations: violations}
	if err := writeEvidence(verif, ev); err != nil {
		fmt.Fprintln(os.Stderr, "govc: evidence:", err)
		return 2
	}
	return exit
}

func writeReplay(verif, prop string, o *Obligation) string {
	dir := filepath.Join(verif, "replays", prop)
	os.MkdirAll(dir, 0o755)
	path := filepath.Join(dir, sanitize(strings.ReplaceAll(o.Name, "#", "-"))+".json")
	rf := replayFile{Property: prop, Obligation: o.Name, Function: o.Func, Where: o.Where, Spec: o.Src, Verdicts: o.Res.All, SolverOut: o.Res.Output, Query: o.Query}
	tryReplay(verif, prop, o, &rf)
	data, _ := json.MarshalIndent(rf, "", " ")
	os.WriteFile(path, data, 0o644)
	return path
}

func cmdDump(args []string) int {
	fs := flag.NewFlagSet("dump", flag.ExitOnError)
	fn := fs.String("func", "", "substring of the function key")
	repo := fs.String("repo", "/repo", "repository root")
	verif := fs.String("verif", "/verif", "verif root")
	tags := fs.String("tags", "", "extra build tags")
	obl := fs.String("obl", "", "substring of the obligation name to print the query of")
	fs.Parse(args)
	p, err := setup(*repo, *verif, *tags)
	if err != nil {
		fmt.Fprintln(os.Stderr, err)
		return 2
	}
	for _, c := range p.CS.ByKey {
		if c.Kind != "func" || !strings.Contains(c.Key, *fn) {
			continue
		}
		f := p.FnByKey[c.Key]
		if f == nil {
			fmt.Println("no function", c.Key)
			continue
		}
		fv := newFuncVC(p, f, c)
		fv.setupStream()
		if err := fv.translate(); err != nil {
			fmt.Println("ERROR", err)
		}
		fv.addProbes()
		fmt.Printf("== %s: %d obligations, %d assertions\n", fv.Name, len(fv.obls), len(fv.asserts))
		if os.Getenv("GOVC_DEBUG") != "" {
			cnt := map[int]int{}
			for _, b := range fv.assertBlk {
				cnt[b]++
			}
			for b, n := range cnt {
				if n > 100 {
					fmt.Printf("   block %d: %d assertions\n", b, n)
				}
			}
		}
		for _, o := range fv.obls {
			fmt.Printf("  %s  [%s] %s\n", o.Name, strings.Join(o.Props, ","), o.Where)
			if *obl != "" && strings.Contains(o.Name, *obl) {
				os.WriteFile("/tmp/govc_query.smt2", []byte(fv.buildQuery(o)), 0o644)
				fmt.Println("    query written to /tmp/govc_query.smt2")
			}
		}
		for _, w := range fv.warnings {
			fmt.Println("  warning:", w)
		}
	}
	return 0
}

// Baseline: the names of all module functions of the pinned tree (baseline_funcs.json, written by
// `govc baseline` and committed). A contract-less callee that is not in it was introduced by the change
// under check.
var baselineFuncs map[string]bool

func newHelpers(verif string, o *Obligation) []string {
	if o.fv == nil || len(o.fv.helpers) == 0 {
		return nil
	}
	if baselineFuncs == nil {
		baselineFuncs = map[string]bool{}
		var names []string
		if data, err := os.ReadFile(filepath.Join(verif, "baseline_funcs.json")); err == nil {
			json.Unmarshal(data, &names)
		}
		for _, n := range names {
			baselineFuncs[n] = true
		}
	}
	if len(baselineFuncs) == 0 {
		return nil // no baseline: the policy is off
	}
	var out []string
	for h := range o.fv.helpers {
		if !baselineFuncs[h] {
			out = append(out, h)
		}
	}
	sort.Strings(out)
	return out
}

func cmdBaseline(args []string) int {
	fs := flag.NewFlagSet("baseline", flag.ExitOnError)
	repo := fs.String("repo", "/repo", "repository root")
	verif := fs.String("verif", "/verif", "verif root")
	fs.Parse(args)
	seen := map[string]bool{}
	for _, tags := range []string{"", "binary_log"} {
		p, err := setup(*repo, *verif, tags)
		if err != nil {
			fmt.Fprintln(os.Stderr, err)
			return 2
		}
		for _, fn := range p.AllFns {
			if p.inModule(fn) {
				seen[shortFn(fn)] = true
			}
		}
	}
	bn := map[string]fnNames{}
	for _, tags := range []string{"", "binary_log"} {
		p, err := setup(*repo, *verif, tags)
		if err != nil {
			fmt.Fprintln(os.Stderr, err)
			return 2
		}
		for _, c := range p.CS.ByKey {
			fn := p.FnByKey[c.Key]
			if c.Kind != "func" || fn == nil || len(fn.Blocks) == 0 {
				continue
			}
			e := fnNames{Loops: map[string][]string{}}
			for _, f := range fn.FreeVars {
				e.FreeVars = append(e.FreeVars, f.Name())
			}
			fv := newFuncVC(p, fn, c)
			fv.analyseCFG()
			for h, n := range fv.loopHeads {
				var ns []string
				for _, in := range h.Instrs {
					ph, ok := in.(*ssa.Phi)
					if !ok {
						break
					}
					ns = append(ns, phiName(ph))
				}
				if n > 0 && len(ns) > 0 {
					e.Loops[strconv.Itoa(n)] = ns
				}
			}
			if len(e.FreeVars) > 0 || len(e.Loops) > 0 {
				bn[fn.String()] = e
			}
		}
	}
	nd, _ := json.MarshalIndent(bn, "", " ")
	if err := os.WriteFile(filepath.Join(*verif, "baseline_names.json"), nd, 0o644); err != nil {
		fmt.Fprintln(os.Stderr, err)
		return 2
	}
	fmt.Printf("%d functions under contract with named loop or captured variables\n", len(bn))
	names := sortedKeys(seen)
	data, _ := json.MarshalIndent(names, "", " ")
	if err := os.WriteFile(filepath.Join(*verif, "baseline_funcs.json"), data, 0o644); err != nil {
		fmt.Fprintln(os.Stderr, err)
		return 2
	}
	fmt.Printf("%d module functions in the baseline\n", len(names))
	return 0
}
