package main

import (
	"encoding/json"
	"fmt"
	"go/token"
	"go/types"
	"os"
	"path/filepath"
	"strconv"
	"strings"

	"golang.org/x/tools/go/ssa"
)

// ---------------------------------------------------------------------------
// Static roots of addresses (used for loop modsets and function effects)

type rootKind int

const (
	rootAlloc rootKind = iota
	rootGlobal
	rootHeap  // heap key
	rootSlice // element of a slice value
	rootUnknown
	rootFresh // field of an object allocated by this very function: invisible to callers
)

type addrRoot struct {
	kind   rootKind
	alloc  *ssa.Alloc
	global *ssa.Global
	keys   []string // heap keys
	slice  ssa.Value
}

func staticRoot(v ssa.Value) addrRoot {
	switch v := v.(type) {
	case *ssa.Alloc:
		elem := v.Type().(*types.Pointer).Elem()
		if _, isStruct := elem.Underlying().(*types.Struct); isStruct && v.Heap && !opaqueStruct(elem) {
			return addrRoot{kind: rootFresh, keys: allFieldKeys(elem)}
		}
		return addrRoot{kind: rootAlloc, alloc: v}
	case *ssa.Global:
		return addrRoot{kind: rootGlobal, global: v}
	case *ssa.FieldAddr:
		st := v.X.Type().Underlying().(*types.Pointer).Elem()
		if _, isAlloc := v.X.(*ssa.Alloc); isAlloc {
			r := staticRoot(v.X)
			if r.kind == rootAlloc {
				return r
			}
			if r.kind == rootFresh {
				f := st.Underlying().(*types.Struct).Field(v.Field)
				return addrRoot{kind: rootFresh, keys: []string{heapKey(st, f.Name())}}
			}
		}
		switch x := v.X.(type) {
		case *ssa.FieldAddr, *ssa.IndexAddr, *ssa.Global:
			r := staticRoot(x)
			if r.kind != rootUnknown {
				return r
			}
		}
		if opaqueStruct(st) {
			return addrRoot{kind: rootUnknown}
		}
		f := st.Underlying().(*types.Struct).Field(v.Field)
		return addrRoot{kind: rootHeap, keys: []string{heapKey(st, f.Name())}}
	case *ssa.IndexAddr:
		if _, ok := v.X.Type().Underlying().(*types.Slice); ok {
			return addrRoot{kind: rootSlice, slice: v.X}
		}
		return staticRoot(v.X)
	}
	// a pointer value: the pointee is a heap cell or a whole struct
	if pt, ok := v.Type().Underlying().(*types.Pointer); ok {
		elem := pt.Elem()
		if _, isStruct := elem.Underlying().(*types.Struct); isStruct && !opaqueStruct(elem) {
			return addrRoot{kind: rootHeap, keys: allFieldKeys(elem)}
		}
		return addrRoot{kind: rootHeap, keys: []string{"cell." + sortTag(sortOfType(elem), ModeInt)}}
	}
	return addrRoot{kind: rootUnknown}
}

func allFieldKeys(t types.Type) []string {
	st, ok := t.Underlying().(*types.Struct)
	if !ok {
		return nil
	}
	var ks []string
	for i := 0; i < st.NumFields(); i++ {
		ks = append(ks, heapKey(t, st.Field(i).Name()))
	}
	return ks
}

// ---------------------------------------------------------------------------
// Loop handling

type modSet struct {
	cells   map[*ssa.Alloc]bool
	heap    map[string]bool
	globals map[*ssa.Global]bool
	ghosts  map[string]bool
	slices  map[ssa.Value]bool
	allHeap bool
	anyCall bool
}

func (fv *FuncVC) loopModSet(body []*ssa.BasicBlock) *modSet {
	ms := &modSet{cells: map[*ssa.Alloc]bool{}, heap: map[string]bool{}, globals: map[*ssa.Global]bool{}, ghosts: map[string]bool{}, slices: map[ssa.Value]bool{}}
	addRoot := func(r addrRoot) {
		switch r.kind {
		case rootAlloc:
			ms.cells[r.alloc] = true
		case rootGlobal:
			ms.globals[r.global] = true
		case rootHeap, rootFresh:
			for _, k := range r.keys {
				ms.heap[k] = true
			}
		case rootSlice:
			ms.slices[r.slice] = true
		}
	}
	for _, b := range body {
		for _, in := range b.Instrs {
			switch in := in.(type) {
			case *ssa.Store:
				addRoot(staticRoot(in.Addr))
			case *ssa.Alloc:
				ms.cells[in] = true
			case *ssa.Call:
				if bi, ok := in.Call.Value.(*ssa.Builtin); ok && bi.Name() == "append" && fv.C != nil && len(fv.C.Sites) > 0 {
					ms.ghosts["cov"] = true
				}
				ms.anyCall = true
				eff := fv.P.callEffect(in.Common())
				for k := range eff.Heap {
					ms.heap[k] = true
				}
				for g := range eff.Globals {
					ms.globals[g] = true
				}
				for l := range eff.Logs {
					ms.ghosts["log."+l+".n"] = true
					ms.ghosts["logarrays."+l] = true
				}
				for _, a := range eff.ArgRoots {
					addRoot(a)
				}
				if eff.Opaque {
					ms.allHeap = true
				}
				for _, k := range eff.Ghost {
					ms.ghosts[k] = true
				}
			case *ssa.Next:
				if rg, ok := in.Iter.(*ssa.Range); ok && in.IsString {
					ms.ghosts["iter."+rg.Name()] = true
				}
			case ssa.CallInstruction:
				ms.anyCall = true
				eff := fv.P.callEffect(in.Common())
				for k := range eff.Heap {
					ms.heap[k] = true
				}
				for g := range eff.Globals {
					ms.globals[g] = true
				}
				for l := range eff.Logs {
					ms.ghosts["log."+l+".n"] = true
					ms.ghosts["logarrays."+l] = true
				}
				for _, a := range eff.ArgRoots {
					addRoot(a)
				}
				if eff.Opaque {
					ms.allHeap = true
				}
				for _, k := range eff.Ghost {
					ms.ghosts[k] = true
				}
			}
		}
	}
	return ms
}

// contractMentions: the function's contract refers to the call log of key.
func (fv *FuncVC) contractMentions(key string) bool {
	if fv.C == nil {
		return false
	}
	if fv.mentions == nil {
		fv.mentions = map[string]bool{}
		var srcs []string
		for _, c := range fv.C.Requires {
			srcs = append(srcs, c.Src)
		}
		for _, c := range fv.C.Ensures {
			srcs = append(srcs, c.Src)
		}
		for _, l := range fv.C.Loops {
			for _, c := range l.Invs {
				srcs = append(srcs, c.Src)
			}
		}
		all := strings.Join(srcs, "\n")
		for k := range fv.P.CS.Tracked {
			if strings.Contains(all, "("+k+",") || strings.Contains(all, "("+k+")") {
				fv.mentions[k] = true
			}
		}
	}
	return fv.mentions[key]
}

func (fv *FuncVC) havoc(ms *modSet, tag string) {
	st := fv.cur
	if _, used := st.ghost["mapepoch"]; used || ms.anyCall {
		st.ghost["mapepoch"] = fv.fresh("G_mapepoch_"+tag, SMath)
	}
	cellSet := map[*ssa.Alloc]bool{}
	for a := range st.cells {
		cellSet[a] = true
	}
	for _, a := range sortedAllocs(cellSet) {
		esc := fv.escaped[a]
		if esc && fv.closureOnly[a] && fv.inCall && !fv.curCallHasFuncArg {
			esc = false // captured by a closure only, and this call cannot reach any closure
		}
		if esc && fv.closureOnly[a] && fv.deferOnlyCell(a) {
			esc = false // captured only by closures that are deferred on the spot: they run at the function's exit and nowhere else
		}
		if ms.cells[a] || (ms.anyCall && esc) {
			elem := a.Type().(*types.Pointer).Elem()
			st.cells[a] = fv.freshWF("c_"+a.Name()+"_"+tag, elem)
		}
	}
	if ms.allHeap {
		for k := range fv.P.HeapKeyType {
			ms.heap[k] = true
		}
		for k := range st.heap {
			ms.heap[k] = true
		}
	}
	for _, k := range sortedKeys(ms.heap) {
		s, ok := fv.heapSorts[k]
		if !ok {
			if t, ok2 := fv.P.HeapKeyType[k]; ok2 {
				s = fv.sortOf(t)
			} else if k == "ghost.content" {
				fv.ensureSort(SBytes)
				s = SBytes
			} else {
				continue // never accessed in this function and unknown type: irrelevant
			}
		}
		fv.heapTerm(st, k, s) // make sure the initial symbol exists
		st.heap[k] = fv.freshHeap(k+"_"+tag, s)
	}
	for _, g := range sortedGlobals(ms.globals) {
		if fv.P.globalProtected(g) && !(isInitFn(fv.Fn) && fv.Fn.Pkg == g.Pkg) {
			continue
		}
		gt := g.Type().(*types.Pointer).Elem()
		fv.globalTerm(st, g)
		st.globals[g] = fv.freshWF("Gl_"+g.Name()+"_"+tag, gt)
	}
	// entries of a call log below its current length are never rewritten: when a callee may append to a
	// log this contract talks about, the old entries are kept (frame of the log arrays). Opt-in per
	// contract (`flag logframe`): the extra quantified assumptions slow unrelated proofs down.
	oldLen := map[string]string{}
	for k := range ms.ghosts {
		if len(k) > 10 && k[:10] == "logarrays." && fv.C != nil && fv.C.Flags["logframe"] != "" && fv.contractMentions(k[10:]) {
			oldLen[k[10:]] = fv.ghostTerm(st, "log."+k[10:]+".n", SMath).S
		}
	}
	for _, k := range sortedKeys(ms.ghosts) {
		if len(k) > 10 && k[:10] == "logarrays." {
			key := k[10:]
			hkeys := map[string]bool{}
			for hk := range st.heap {
				hkeys[hk] = true
			}
			for _, hk := range sortedKeys(hkeys) {
				t := st.heap[hk]
				if len(hk) > len("log."+key) && hk[:len("log."+key)+1] == "log."+key+"." {
					nh := fv.freshHeap(hk+"_"+tag, t.Sort)
					if n, ok := oldLen[key]; ok {
						fv.nfresh++
						j := fmt.Sprintf("lf_q%d", fv.nfresh)
						fv.assert(fmt.Sprintf("(forall ((%s Int)) (! (=> (< %s %s) (= (select %s %s) (select %s %s))) :pattern ((select %s %s))))", j, j, n, nh.S, j, t.S, j, nh.S, j))
					}
					st.heap[hk] = nh
				}
			}
			continue
		}
		old := fv.ghostTerm(st, k, SMath)
		n := fv.fresh("G_"+k+"_"+tag, old.Sort)
		st.ghost[k] = n
		if len(k) > 4 && k[:4] == "log." {
			fv.assert(app(">=", n.S, old.S))
		}
	}
	for _, v := range sortedValues(ms.slices) {
		val, defined := fv.vals[v]
		if !defined || val.T.S == "" {
			continue // the slice value is computed inside the loop: nothing to forget yet
		}
		cur := val.T
		if o, ok := st.slices[v]; ok {
			cur = o
		}
		n := fv.fresh("sl_"+v.Name()+"_"+tag, cur.Sort)
		n.Go = cur.Go
		// in-place stores keep everything but the content
		fv.assert(smtAnd(app("=", fv.lenOf(n), fv.lenOf(cur)), app("=", fv.offOf(n), fv.offOf(cur)), app("=", fv.capOf(n), fv.capOf(cur)), app("=", fv.baseOf(n), fv.baseOf(cur))))
		st.slices[v] = n
	}
	// the global order of logged calls only advances
	os := fv.ghostTerm(st, "seq", SMath)
	ns := fv.fresh("G_seq_"+tag, SMath)
	fv.assert(app(">=", ns.S, os.S))
	st.ghost["seq"] = ns
	// allocation counter only grows
	oa := fv.ghostTerm(st, "alloc", SMath)
	na := fv.fresh("G_alloc_"+tag, SMath)
	fv.assert(app(">=", na.S, oa.S))
	st.ghost["alloc"] = na
}

// rangeLen finds, for a range-over-slice loop, the length the hidden index
// is compared with in the loop header (available to invariants as `rangelen`).
func (fv *FuncVC) rangeLen(h *ssa.BasicBlock) (ssa.Value, bool) {
	for _, in := range h.Instrs {
		if b, ok := in.(*ssa.BinOp); ok && b.Op == token.LSS {
			if add, ok := b.X.(*ssa.BinOp); ok && add.Op == token.ADD {
				if ph, ok := add.X.(*ssa.Phi); ok && ph.Comment == "rangeindex" {
					return b.Y, true
				}
			}
		}
	}
	return nil, false
}

func (fv *FuncVC) bindRangeLen(env *Env, h *ssa.BasicBlock) {
	// result_<callee>: the value returned by the one call of <callee> made before the loop
	// (locals that are not loop-carried have no name in SSA; the call that produced them has)
	count := map[string]int{}
	var calls []*ssa.Call
	for _, b := range fv.Fn.Blocks {
		for _, in := range b.Instrs {
			if c, ok := in.(*ssa.Call); ok {
				if f := c.Call.StaticCallee(); f != nil {
					count[f.Name()]++
					calls = append(calls, c)
				}
			}
		}
	}
	for _, c := range calls {
		f := c.Call.StaticCallee()
		if count[f.Name()] != 1 || !c.Block().Dominates(h) || c.Block() == h {
			continue
		}
		if val, ok := fv.vals[c]; ok && val.T.S != "" {
			env.names["result_"+f.Name()] = val
		}
	}
	if v, ok := fv.rangeLen(h); ok {
		if val, ok := fv.vals[v]; ok {
			env.names["rangelen"] = val
		}
	}
	// rangepos: the hidden position of a range-over-string loop whose Next is in the header
	for _, in := range h.Instrs {
		if nx, ok := in.(*ssa.Next); ok && nx.IsString {
			if rg, ok := nx.Iter.(*ssa.Range); ok {
				env.names["rangepos"] = Val{T: fv.ghostTerm(env.st, "iter."+rg.Name(), SMath)}
			}
		}
	}
	// loopbound: the right operand of the header test `x < bound`
	if len(h.Instrs) > 0 {
		if iff, ok := h.Instrs[len(h.Instrs)-1].(*ssa.If); ok {
			if cmp, ok := iff.Cond.(*ssa.BinOp); ok && cmp.Op == token.LSS {
				if ph, isPhi := cmp.Y.(*ssa.Phi); !isPhi || ph.Block() != h {
					if _, isConst := cmp.Y.(*ssa.Const); isConst {
						env.names["loopbound"] = fv.operand(cmp.Y)
					} else if val, ok := fv.vals[cmp.Y]; ok {
						env.names["loopbound"] = val
					}
				}
			}
		}
	}
}

func (fv *FuncVC) loopSpec(h *ssa.BasicBlock) *LoopSpec {
	if fv.C == nil {
		return nil
	}
	spec := fv.C.Loops[fv.loopHeads[h]]
	if fv.inferCounters {
		if cached, ok := fv.inferred[h]; ok {
			return cached
		}
		extra := fv.inferCounterInvariants(h)
		if len(extra) > 0 {
			ns := &LoopSpec{N: fv.loopHeads[h]}
			if spec != nil {
				*ns = *spec
				ns.Invs = append([]*Clause{}, spec.Invs...)
			}
			ns.Invs = append(ns.Invs, extra...)
			spec = ns
		}
		if fv.inferred == nil {
			fv.inferred = map[*ssa.BasicBlock]*LoopSpec{}
		}
		fv.inferred[h] = spec
	}
	return spec
}

type loopInfo struct {
	measure string
}

func (fv *FuncVC) loopHeader(b *ssa.BasicBlock, phis []*ssa.Phi, entryVal func(*ssa.Phi) Val) {
	n := fv.loopHeads[b]
	spec := fv.loopSpec(b)
	tag := fmt.Sprintf("L%d", n)
	// entry values
	entry := map[string]Val{}
	for _, ph := range phis {
		v := entryVal(ph)
		v.T = fv.asTerm(v, ph.Type())
		v.LV = nil
		entry[phiName(ph)] = v
	}
	if spec != nil {
		env := fv.newEnv(fv.cur, fv.entry)
		fv.bindRangeLen(env, b)
		for k, v := range entry {
			env.names[k] = v
		}
		fv.bindPhiAliases(env, n, phis, func(ph *ssa.Phi) Val { return entry[phiName(ph)] })
		for _, inv := range spec.Invs {
			t := env.evalBool(inv.E, inv)
			cs := splitAnd(t)
			for ci, c := range cs {
				d := fmt.Sprintf("loop%d.%d", n, inv.Idx)
				if len(cs) > 1 {
					d = fmt.Sprintf("loop%d.%d.%d", n, inv.Idx, ci+1)
				}
				fv.oblige("inv-init", d, inv.Props, fv.blockPos(b), c, inv.Src)
			}
		}
	} else if fv.C != nil {
		fv.warn("loop %d at %s has no invariant: loop-carried state is unconstrained", n, fv.P.relPos(fv.blockPos(b)))
	}
	// havoc
	ms := fv.loopModSet(fv.loopBody[b])
	fv.havoc(ms, tag)
	for _, ph := range phis {
		t := fv.freshWF(phiName(ph)+"_"+tag, ph.Type())
		t.Go = ph.Type()
		fv.vals[ph] = Val{T: t}
	}
	if spec != nil {
		env := fv.newEnv(fv.cur, fv.entry)
		env.assuming = true
		fv.bindRangeLen(env, b)
		for _, ph := range phis {
			env.names[phiName(ph)] = fv.vals[ph]
		}
		fv.bindPhiAliases(env, n, phis, func(ph *ssa.Phi) Val { return fv.vals[ph] })
		for _, inv := range spec.Invs {
			t := env.evalBool(inv.E, inv)
			fv.assume(t)
		}
		if spec.Decreases != nil {
			m := env.coerce(env.eval(spec.Decreases.E), SInt)
			fv.loopMeasure[b] = m.S
		}
	}
}

func (fv *FuncVC) blockPos(b *ssa.BasicBlock) token.Pos {
	for _, in := range b.Instrs {
		if in.Pos().IsValid() {
			return in.Pos()
		}
	}
	for _, s := range b.Succs {
		for _, in := range s.Instrs {
			if in.Pos().IsValid() {
				return in.Pos()
			}
		}
	}
	return fv.Fn.Pos()
}

func (fv *FuncVC) backEdge(p, h *ssa.BasicBlock, succIdx int) {
	spec := fv.loopSpec(h)
	if spec == nil {
		return
	}
	n := fv.loopHeads[h]
	// which predecessor slot of h is p?
	slot := -1
	for i, q := range h.Preds {
		if q == p {
			slot = i
			break
		}
	}
	if slot < 0 {
		fv.unsupported("back edge bookkeeping")
	}
	saveReach := fv.curReach
	fv.curReach = fv.edgeReach2(p, h)
	env := fv.newEnv(fv.cur, fv.entry)
	fv.bindRangeLen(env, h)
	var keepPhis []*ssa.Phi
	keepVals := map[*ssa.Phi]Val{}
	for _, in := range h.Instrs {
		ph, ok := in.(*ssa.Phi)
		if !ok {
			break
		}
		v := fv.operand(ph.Edges[slot])
		v.T = fv.asTerm(v, ph.Type())
		v.LV = nil
		env.names[phiName(ph)] = v
		keepPhis = append(keepPhis, ph)
		keepVals[ph] = v
	}
	fv.bindPhiAliases(env, n, keepPhis, func(ph *ssa.Phi) Val { return keepVals[ph] })
	for _, inv := range spec.Invs {
		t := env.evalBool(inv.E, inv)
		cs := splitAnd(t)
		for ci, c := range cs {
			d := fmt.Sprintf("loop%d.%d", n, inv.Idx)
			if len(cs) > 1 {
				d = fmt.Sprintf("loop%d.%d.%d", n, inv.Idx, ci+1)
			}
			fv.oblige("inv-keep", d, inv.Props, fv.blockPos(p), c, inv.Src)
		}
	}
	if spec.Decreases != nil {
		m0 := fv.loopMeasure[h]
		m := env.coerce(env.eval(spec.Decreases.E), SInt)
		fv.oblige("decreases", fmt.Sprintf("loop%d", n), spec.Decreases.Props, fv.blockPos(p), smtAnd(fv.ile(fv.ilit(0), m0), fv.ilt(m.S, m0)), spec.Decreases.Src)
	}
	fv.curReach = saveReach
}

// edgeReach2 is edgeReach for the block currently being finished (its reach
// is known, its edge conditions have just been recorded).
func (fv *FuncVC) edgeReach2(p, b *ssa.BasicBlock) string {
	c, ok := fv.edge[[2]int{p.Index, b.Index}]
	if !ok {
		c = "true"
	}
	return smtAnd(fv.reach[p], c)
}

// Baseline of source names (baseline_names.json, written by `govc baseline` from the pinned tree and
// committed): for every function under contract the names of its captured variables and, per loop,
// of its loop-carried variables, in SSA order. A contract names these variables as the source does;
// when the source renames one, the name the contract uses is bound to the variable at the same
// position (SSA orders them by declaration, so a rename keeps the position). Only when the number
// of variables is unchanged, and only for names that no longer exist.
type fnNames struct {
	FreeVars []string            `json:"freevars,omitempty"`
	Loops    map[string][]string `json:"loops,omitempty"`
}

var baselineNames map[string]fnNames

func loadBaselineNames(verif string) map[string]fnNames {
	if baselineNames == nil {
		baselineNames = map[string]fnNames{}
		if data, err := os.ReadFile(filepath.Join(verif, "baseline_names.json")); err == nil {
			json.Unmarshal(data, &baselineNames)
		}
	}
	return baselineNames
}

func (fv *FuncVC) bindPhiAliases(env *Env, loop int, phis []*ssa.Phi, valOf func(*ssa.Phi) Val) {
	bn, ok := loadBaselineNames(fv.P.VerifRoot)[fv.Fn.String()]
	if !ok {
		return
	}
	old := bn.Loops[strconv.Itoa(loop)]
	if len(old) != len(phis) || len(old) == 0 {
		return
	}
	cur := map[string]bool{}
	for _, ph := range phis {
		cur[phiName(ph)] = true
	}
	synthetic := func(n string) bool {
		// names the SSA builder makes up (range-loop index, unnamed temporaries): not the source's
		return n == "" || n == "rangeindex" || strings.HasPrefix(n, "rangeindex") || (len(n) > 1 && n[0] == 't' && n[1] >= '0' && n[1] <= '9')
	}
	// a rename keeps every other variable: at least the synthetic ones must still line up, and the
	// variable taking over a name must be a source variable of the same type
	for k, name := range old {
		if synthetic(name) != synthetic(phiName(phis[k])) || (synthetic(name) && name != phiName(phis[k])) {
			return
		}
	}
	for k, name := range old {
		if name == "" || cur[name] || synthetic(name) {
			continue
		}
		if _, bound := env.names[name]; bound {
			continue
		}
		env.names[name] = valOf(phis[k])
		fv.warn("loop %d: the contract's variable %q is bound to %q (same position; renamed since the pinned tree)", loop, name, phiName(phis[k]))
	}
}

// deferOnlyCell: every closure of this function that captures the local is
// created as the operand of a defer statement and has no other use, so no call
// made before the function's exit can run it (and thereby write the local).
func (fv *FuncVC) deferOnlyCell(a *ssa.Alloc) bool {
	if fv.deferOnly == nil {
		fv.deferOnly = map[*ssa.Alloc]bool{}
		bad := map[*ssa.Alloc]bool{}
		for _, b := range fv.Fn.Blocks {
			for _, in := range b.Instrs {
				mc, ok := in.(*ssa.MakeClosure)
				if !ok {
					continue
				}
				only := mc.Referrers() != nil && len(*mc.Referrers()) > 0
				if only {
					for _, r := range *mc.Referrers() {
						if d, isDefer := r.(*ssa.Defer); !isDefer || d.Call.Value != mc {
							only = false
						}
					}
				}
				for _, bd := range mc.Bindings {
					if al, ok := bd.(*ssa.Alloc); ok {
						if only && !bad[al] {
							fv.deferOnly[al] = true
						} else {
							bad[al] = true
							fv.deferOnly[al] = false
						}
					}
				}
			}
		}
	}
	return fv.deferOnly[a]
}
