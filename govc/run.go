package main

import (
	"encoding/json"
	"fmt"
	"os"
	"path/filepath"
	"regexp"
	"sort"
	"strings"
	"sync"
	"time"
)

func (fv *FuncVC) buildQuery(o *Obligation) string {
	return fv.buildQueryOpt(o, false)
}

// buildQueryOpt with dropQuant leaves out every quantified assumption: the
// query is then weaker (a sat answer is only a candidate counterexample, to
// be confirmed by replaying it on the real code), but solvers that answer
// unknown in the presence of quantifiers can produce a model for it.
func (fv *FuncVC) buildQueryOpt(o *Obligation, dropQuant bool) string {
	var sb strings.Builder
	sb.WriteString("(set-logic ALL)\n")
	for _, d := range fv.sortDecls {
		sb.WriteString(d)
		sb.WriteByte('\n')
	}
	for _, d := range fv.decls {
		sb.WriteString(d)
		sb.WriteByte('\n')
	}
	var anc map[int]bool
	if o.Anc != nil {
		anc = o.Anc
	} else if o.Block >= 0 && !o.Probe {
		anc = fv.ancestors(fv.Fn.Blocks[o.Block])
	}
	for i, a := range fv.asserts[:o.NAssert] {
		if anc != nil && fv.assertBlk[i] >= 0 && !anc[fv.assertBlk[i]] {
			continue // emitted on a path that cannot reach this obligation
		}
		if dropQuant && (strings.Contains(a, "(forall ") || strings.Contains(a, "(exists ")) {
			continue
		}
		sb.WriteString("(assert ")
		sb.WriteString(a)
		sb.WriteString(")\n")
	}
	if o.Probe {
		sb.WriteString("(assert " + o.Reach + ")\n")
	} else {
		sb.WriteString("(assert (and " + o.Reach + " (not " + o.Goal + ")))\n")
	}
	sb.WriteString("(check-sat)\n")
	// model values of scalar parameters and named symbols
	var names []string
	for _, d := range fv.decls {
		if !strings.HasPrefix(d, "(declare-const ") {
			continue
		}
		f := strings.Fields(d)
		n := f[1]
		if strings.HasPrefix(n, "p_") || strings.HasPrefix(n, "ld!") || strings.Contains(n, "_r0!") || strings.Contains(n, "_L") || strings.HasPrefix(n, "atomic") || strings.HasPrefix(n, "shared") {
			names = append(names, n)
		}
	}
	if len(names) > 40 {
		names = names[:40]
	}
	if rv := fv.replayGetValues(); len(rv) > 0 {
		sb.WriteString("(get-value (" + strings.Join(rv, " ") + "))\n")
	}
	if len(names) > 0 {
		sb.WriteString("(get-value (" + strings.Join(names, " ") + "))\n")
	}
	return sb.String()
}

// usesZ3Only reports syntax cvc5 1.0 rejects.
func usesZ3Only(q string) bool {
	return strings.Contains(q, "(lambda ") || strings.Contains(q, "bv2nat")
}

type RunConfig struct {
	Prop     string
	Tier     string
	TimeoutS int
	All      bool
	Workers  int
	Verbose  bool
	DumpObl  string
	Known    []KnownFinding // listed findings: their obligations get one attempt (the verdict does not matter)
}

type FuncReport struct {
	Name        string   `json:"function"`
	Arith       string   `json:"arith"`
	Obligations int      `json:"obligations"`
	Discharged  int      `json:"discharged"`
	Warnings    []string `json:"warnings,omitempty"`
	Unmodelled  []string `json:"unmodelled_calls,omitempty"`
	Error       string   `json:"error,omitempty"`
}

// discharge runs all obligations of the given functions in parallel.
func discharge(fvs []*FuncVC, cfg RunConfig) {
	type job struct {
		fv *FuncVC
		o  *Obligation
	}
	var jobs []job
	for _, fv := range fvs {
		for _, o := range fv.obls {
			jobs = append(jobs, job{fv, o})
		}
	}
	ch := make(chan job)
	var wg sync.WaitGroup
	for w := 0; w < cfg.Workers; w++ {
		wg.Add(1)
		go func() {
			defer wg.Done()
			for j := range ch {
				q := j.fv.buildQuery(j.o)
				j.o.Query = q
				if cfg.DumpObl != "" && strings.Contains(j.o.Name, cfg.DumpObl) {
					os.WriteFile("/tmp/govc_query.smt2", []byte(q), 0o644)
				}
				tmo := cfg.TimeoutS
				if j.o.Probe {
					tmo = 3 // a vacuity probe that is not answered quickly is inconclusive, not an alarm
				}
				isKnown := !j.o.Probe && matchKnown(cfg.Known, cfg.Prop, j.o.Name) != nil
				if isKnown && tmo > 10 {
					tmo = 10 // a listed finding is reported as KNOWN-FINDING whether the solver answers sat or gives up
				}
				res, err := solve(q, tmo, cfg.All && !j.o.Probe && !isKnown, !usesZ3Only(q))
				if isKnown && res.Verdict == VUnknown {
					j.o.Res = res
					j.o.Status = "unknown"
					continue
				}
				if res.Verdict == VUnknown && !j.o.Probe {
					// one retry with a larger budget
					res, err = solve(q, cfg.TimeoutS*3, cfg.All, !usesZ3Only(q))
				}
				if res.Verdict == VUnknown && !j.o.Probe && err == nil {
					// candidate counterexample for the replay
					q2 := j.fv.buildQueryOpt(j.o, true)
					if r2, e2 := solve(q2, cfg.TimeoutS, false, !usesZ3Only(q2)); e2 == nil && r2.Verdict == VSat {
						res.Output = r2.Output
						res.All["candidate-model(without quantified assumptions)"] = r2.Solver
						j.o.candidate = true
					}
				}
				j.o.Res = res
				switch {
				case err != nil:
					j.o.Status = "error: " + err.Error()
				case j.o.Probe && res.Verdict == VSat:
					j.o.Status = "probe-ok"
				case j.o.Probe && res.Verdict == VUnsat:
					j.o.Status = "probe-failed"
				case j.o.Probe:
					j.o.Status = "probe-unknown"
				case res.Verdict == VUnsat:
					j.o.Status = "discharged"
				case res.Verdict == VSat:
					j.o.Status = "failed"
				default:
					j.o.Status = "unknown"
				}
			}
		}()
	}
	for _, j := range jobs {
		ch <- j
	}
	close(ch)
	wg.Wait()
}

// ---------------------------------------------------------------------------
// Known findings

type KnownFinding struct {
	Property   string `json:"property"`
	Obligation string `json:"obligation"` // regexp on the obligation name
	What       string `json:"what"`
	Status     string `json:"status"` // "known" or "fixed"
	Commit     string `json:"commit,omitempty"`
}

func loadKnownFindings(path string) []KnownFinding {
	var kf struct {
		Findings []KnownFinding `json:"findings"`
	}
	data, err := os.ReadFile(path)
	if err != nil {
		return nil
	}
	if err := json.Unmarshal(data, &kf); err != nil {
		fmt.Fprintf(os.Stderr, "govc: %s: %v\n", path, err)
		os.Exit(2)
	}
	return kf.Findings
}

func matchKnown(kfs []KnownFinding, prop, obl string) *KnownFinding {
	for i := range kfs {
		k := &kfs[i]
		if k.Status == "fixed" || k.Property != prop {
			continue
		}
		if ok, _ := regexp.MatchString("^(?:"+k.Obligation+")$", obl); ok {
			return k
		}
	}
	return nil
}

// ---------------------------------------------------------------------------
// Evidence

type Evidence struct {
	PropertyID  string                 `json:"property_id"`
	Tier        string                 `json:"tier"`
	Seed        int                    `json:"seed"`
	Level       string                 `json:"level"`
	Coverage    map[string]interface{} `json:"coverage"`
	Assumptions []string               `json:"assumptions"`
	WallS       float64                `json:"wall_s"`
	Violations  int                    `json:"violations"`
}

type oblSample struct {
	Name    string  `json:"obligation"`
	Where   string  `json:"where"`
	Spec    string  `json:"spec,omitempty"`
	Status  string  `json:"status"`
	Solver  string  `json:"solver"`
	TimeS   float64 `json:"solver_s"`
	SMTSize int     `json:"smt_bytes"`
}

func writeEvidence(verifDir string, ev *Evidence) error {
	os.MkdirAll(filepath.Join(verifDir, "evidence"), 0o755)
	data, _ := json.MarshalIndent(ev, "", " ")
	return os.WriteFile(filepath.Join(verifDir, "evidence", ev.PropertyID+".json"), append(data, '\n'), 0o644)
}

type replayFile struct {
	Property    string            `json:"property"`
	Obligation  string            `json:"obligation"`
	Function    string            `json:"function"`
	Where       string            `json:"where"`
	Spec        string            `json:"spec"`
	Verdicts    map[string]string `json:"solver_verdicts"`
	SolverOut   string            `json:"solver_output"`
	ReplayTest  string            `json:"replay_test,omitempty"`
	ReplayRan   bool              `json:"replay_ran"`
	ReplayFails bool              `json:"replay_reproduced"`
	ReplayOut   string            `json:"replay_output,omitempty"`
	Query       string            `json:"smt_query"`
}

func sortObls(os []*Obligation) {
	sort.SliceStable(os, func(i, j int) bool { return os[i].Name < os[j].Name })
}

var startTime = time.Now()
