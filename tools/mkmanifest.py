#!/usr/bin/env python3
# Regenerates /verif/MANIFEST.json from tools/claims.json (one entry per property).
import json, subprocess
V='/verif'
ids=[json.loads(l)['id'] for l in open(V+'/properties.jsonl')]
claims=json.load(open(V+'/tools/claims.json'))
hooks=subprocess.run(['git','-C','/repo','log','--format=%H %s'],capture_output=True,text=True).stdout.splitlines()
src=[h.split()[0] for h in hooks if ' verif:' in h]
m={"version":1,
 "setup_cmd":"cd /verif/govc && GOFLAGS=-mod=mod GOPROXY=off GOSUMDB=off GOTOOLCHAIN=local go build -o /verif/bin/govc .",
 "hooks":{"guard":"verif","enable":"contract files zz_contracts_verif.go (comment-only, //go:build verif) are read by govc, which loads /repo with -tags verif; no executable hook exists","baseline_off_cmd":"for m in . ./cmd/lint; do (cd /repo/$m && GOFLAGS=-mod=mod go test -json -vet=off -count=1 -timeout 25m ./...); done","source_commits":src,"add_only":True},
 "engines":[{"name":"govc","path":"/verif/govc","serves_properties":sorted(claims['claimed'].keys()),"kind_free_text":"contract-based deductive verifier for Go built for this task: verification conditions generated from go/ssa of /repo's working tree and //@ contracts (requires/ensures/loop invariants/ghost call logs/frames), one SMT query per obligation, discharged by z3 5.1.0 / z3 4.8.12 / cvc5 1.0.3 raced; failed obligations are replayed on the real code with go test -overlay"}],
 "checks":[], "not_applicable":[],
 "notes":"See DESIGN.md. Exit codes of a check: 0 held, 1 violation (VIOLATION line), 2 the check itself cannot decide (CHECK-ERROR line: unsupported construct, contract out of date, solver rejected a query, too few obligations)."}
for i in ids:
    if i in claims['claimed']:
        c=claims['claimed'][i]
        m['checks'].append({"property_id":i,"quick_cmd":"./check %s quick"%i,"thorough_cmd":"./check %s thorough"%i,
          "evidence_file":"/verif/evidence/%s.json"%i,"replay_cmd_template":"./check %s --replay {path}"%i,"engine":"govc",
          "level_claimed":{"category":c.get('category','proof'),"text":c['text'],"design_ref":c.get('design_ref','DESIGN.md section 3, '+i)},
          "level_note":c['note'],"technique":c.get('technique',"contract-based deductive verification: SMT-discharged verification conditions generated from go/ssa of the real code")})
    else:
        m['not_applicable'].append({"property_id":i,"reason":claims['not_applicable'].get(i,"check not built yet (build in progress; see DESIGN.md section 6)")})
json.dump(m,open(V+'/MANIFEST.json','w'),indent=1)
print(len(m['checks']),'checks,',len(m['not_applicable']),'not applicable')
