package main

import (
	"bytes"
	"encoding/json"
	"fmt"
	"os"
	"os/exec"
	"path/filepath"
	"regexp"
	"strconv"
	"strings"

	"golang.org/x/tools/go/ssa"
)

func init() { sweepTable["consolebounded"] = sweepConsoleBounded }

// sweepConsoleBounded (C16): a *bounded* stand-in, never counted as proved,
// for the parts of the console writer no contract reaches (map iteration,
// sort with closures, fmt, strconv.Quote, encoding/json). The harness
// /verif/replay/console_bounded.go.tmpl is injected into package zerolog with
// -overlay and enumerates, up to the bound stated in its header, events and
// configurations through the real ConsoleWriter.Write, comparing each line
// with an independent reference renderer written from the property statement.
// One obligation per failure class; the first failing inputs are reported.
func sweepConsoleBounded(p *Prog, pc *PropConfig, tags string, r *checkResult) {
	var anchor *ssa.Function
	for _, fn := range p.AllFns {
		if fn.String() == "("+p.ModPath+".ConsoleWriter).Write" {
			anchor = fn
		}
	}
	if anchor == nil {
		r.errors = append(r.errors, "consolebounded: ConsoleWriter.Write not found")
		return
	}
	tmpl, err := os.ReadFile(filepath.Join("/verif", "replay", "console_bounded.go.tmpl"))
	if err != nil {
		r.errors = append(r.errors, "consolebounded: "+err.Error())
		return
	}
	src := strings.ReplaceAll(string(tmpl), "{{OBLIGATION}}", "bounded enumeration")
	tmp, err := os.MkdirTemp("", "govc-bounded-")
	if err != nil {
		r.errors = append(r.errors, err.Error())
		return
	}
	defer os.RemoveAll(tmp)
	tf := filepath.Join(tmp, "zz_verif_replay_test.go")
	os.WriteFile(tf, []byte(src), 0o644)
	target := filepath.Join(p.Root, "zz_verif_replay_test.go")
	ov, _ := json.Marshal(map[string]interface{}{"Replace": map[string]string{target: tf}})
	of := filepath.Join(tmp, "overlay.json")
	os.WriteFile(of, ov, 0o644)
	cmd := exec.Command("go", "test", "-overlay", of, "-vet=off", "-count=1", "-timeout", "300s", "-v", "-run", "TestVerifReplay$", ".")
	cmd.Dir = p.Root
	cmd.Env = append(os.Environ(), "GOFLAGS=-mod=mod", "GOPROXY=off", "GOSUMDB=off", "GOTOOLCHAIN=local")
	if currentTier == "thorough" {
		cmd.Env = append(cmd.Env, "VERIF_TIER=thorough")
	} else {
		cmd.Env = append(cmd.Env, "VERIF_TIER=quick")
	}
	var buf bytes.Buffer
	cmd.Stdout = &buf
	cmd.Stderr = &buf
	cmd.Run()
	out := buf.String()
	mc := regexp.MustCompile(`VERIF-BOUNDED cases=(\d+)`).FindStringSubmatch(out)
	if mc == nil {
		r.errors = append(r.errors, "consolebounded: the harness did not run to completion:\n"+tailOf(out, 1500))
		return
	}
	cases, _ := strconv.Atoi(mc[1])
	c := &Contract{Key: anchor.String(), Kind: "func", Pkg: p.ModPath, Mode: ModeInt, Props: []string{pc.ID}, Loops: map[int]*LoopSpec{}, Flags: map[string]string{}, File: "(sweep consolebounded)"}
	fv := newFuncVC(p, anchor, c)
	fv.Name = "zerolog.ConsoleWriter.Write[bounded]"
	fv.activeProp = pc.ID
	fv.replayTemplate = "console_bounded"
	fr := FuncReport{Name: fv.Name, Arith: "bounded enumeration"}
	for _, m := range regexp.MustCompile(`VERIF-CLASS (\S+) failures=(\d+)`).FindAllStringSubmatch(out, -1) {
		n, _ := strconv.Atoi(m[2])
		var first []string
		for _, ln := range strings.Split(out, "\n") {
			if strings.HasPrefix(ln, "VERIF-FAIL "+m[1]+":") {
				first = append(first, strings.TrimPrefix(ln, "VERIF-FAIL "+m[1]+": "))
			}
		}
		why := fmt.Sprintf("bounded: %d cases enumerated through the real ConsoleWriter.Write, none differs from the reference renderer in class %s", cases, m[1])
		if n > 0 {
			why = fmt.Sprintf("bounded: %d of %d enumerated cases differ from the reference renderer (%s); first: %s", n, cases, m[1], strings.Join(first, " || "))
		}
		o := &Obligation{Name: fv.Name + "#bounded(" + m[1] + ")", Kind: "bounded", Props: []string{pc.ID}, Pos: anchor.Pos(), Where: p.relPos(anchor.Pos()), Src: why,
			Reach: "true", Goal: "false", Func: fv.Name, fv: fv, candidate: true, Block: -1}
		o.Res = SolveResult{Solver: "bounded-enumeration", All: map[string]string{"bounded-enumeration": fmt.Sprintf("%d cases, %d failing", cases, n)}, Output: why}
		fr.Obligations++
		if n == 0 {
			o.Status = "discharged"
			o.Res.Verdict = VUnsat
			fr.Discharged++
		} else {
			o.Status = "failed"
			o.Res.Verdict = VUnknown
		}
		r.extraObl = append(r.extraObl, o)
	}
	if fr.Obligations < 4 {
		r.errors = append(r.errors, "consolebounded: fewer than 4 result classes reported")
	}
	r.reports = append(r.reports, fr)
	bound := "<= 3 fields from {\"\", a, b, error, z}"
	if currentTier == "thorough" {
		bound = "<= 4 fields from {\"\", a, b, error, errors, z}"
	}
	r.notes = append(r.notes, fmt.Sprintf("BOUNDED (not a proof): %d (event, configuration) cases through ConsoleWriter.Write against the reference renderer; bound: "+bound+" plus a duplicated key, wide events of 5..40 integer fields with and without FieldsOrder, 14 value shapes, parts present/absent, 4 FieldsExclude x 4 FieldsOrder x 3 PartsExclude x 3 PartsOrder, colour off, default field formatters, transparent part formatters", cases))
	r.trusted["C16: everything except needsQuote is checked by bounded enumeration only (labelled bounded, not counted as proved): default part formatters (time, level, caller, message), colours, TimeFormat/TimeLocation, custom formatters, events outside the bound"] = true
}
