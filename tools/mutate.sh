#!/bin/bash
# usage: mutate.sh <prop> <file-in-/repo> <python-replace-old> <new>  -- applies one textual mutation, runs the check (no evidence), restores
prop=$1; file=$2; old=$3; new=$4
cd /repo || exit 2
if [ -n "$(git status --porcelain --untracked-files=no)" ]; then echo "repo dirty"; exit 2; fi
python3 - "$file" "$old" "$new" <<'PY'
import sys
p,old,new=sys.argv[1:4]
s=open(p).read()
if old not in s: print("PATTERN NOT FOUND"); sys.exit(3)
open(p,'w').write(s.replace(old,new,1))
PY
[ $? = 0 ] || { git checkout -- .; exit 3; }
export GOFLAGS=-mod=mod GOPROXY=off GOSUMDB=off GOTOOLCHAIN=local
if ! go build ./... 2>/tmp/mut_build.txt; then echo "DOES NOT BUILD: $(head -3 /tmp/mut_build.txt)"; git checkout -- .; exit 4; fi
out=$(cd /verif && ./bin/govc check -prop $prop -noevidence 2>&1)
git checkout -- .
echo "$out" | grep -c "^VIOLATION" | sed "s/^/violations: /"
echo "$out" | grep "^VIOLATION\|CHECK-ERROR" | head -${MUT_SHOW:-3} | cut -c1-${MUT_WIDTH:-260}
