package main

import (
	"fmt"
	"go/types"
	"strings"

	"golang.org/x/tools/go/ssa"
)

func init() { sweepTable["hloghandlers"] = sweepHlogHandlers }

// sweepHlogHandlers (C18, request isolation): every request-handling closure
// of package hlog (func(w http.ResponseWriter, r *http.Request), enumerated at
// check time) may mutate exactly one logger - the one stored in its own
// request's context, zerolog.Ctx(r.Context()) - and writes no state shared
// between requests (no store through a captured variable or to a package
// variable, neither in the handler nor in the update closure it passes).
// Together with NewHandler's contract (each request gets a logger whose
// storage was allocated for it) requests never share appendable storage.
func sweepHlogHandlers(p *Prog, pc *PropConfig, tags string, r *checkResult) {
	n := 0
	for _, fn := range p.AllFns {
		if fn.Parent() == nil || len(fn.Blocks) == 0 || !p.inModule(fn) {
			continue
		}
		pk := fn.Package()
		if pk == nil || !strings.HasSuffix(pk.Pkg.Path(), "/hlog") {
			continue
		}
		if len(fn.Params) != 2 || types.TypeString(fn.Params[1].Type(), nil) != "*net/http.Request" {
			continue
		}
		c := &Contract{Key: fn.String(), Kind: "func", Pkg: pk.Pkg.Path(), Mode: ModeInt, Props: []string{pc.ID}, Loops: map[int]*LoopSpec{}, Flags: map[string]string{}, File: "(sweep hloghandlers)"}
		fv := newFuncVC(p, fn, c)
		fv.Name += "[isolation]"
		fv.activeProp = pc.ID
		fv.curReach = "true"
		req := fn.Params[1]
		// r may have been spilled to a local (it is captured by the update closure): a load of a
		// local that only ever holds r is r
		isReq := func(v ssa.Value) bool {
			if v == ssa.Value(req) {
				return true
			}
			u, ok := v.(*ssa.UnOp)
			if !ok {
				return false
			}
			a, ok := u.X.(*ssa.Alloc)
			if !ok {
				return false
			}
			stores := 0
			for _, b := range fn.Blocks {
				for _, in := range b.Instrs {
					if st, ok := in.(*ssa.Store); ok && st.Addr == ssa.Value(a) {
						stores++
						if st.Val != ssa.Value(req) {
							return false
						}
					}
				}
			}
			// the closures that capture the local must not reassign it either (checked by store-captured)
			return stores > 0
		}
		nChecked := 0
		var checkNoSharedStore func(f *ssa.Function, depth int)
		checkNoSharedStore = func(f *ssa.Function, depth int) {
			for _, b := range f.Blocks {
				for _, in := range b.Instrs {
					switch in := in.(type) {
					case *ssa.Store:
						root := in.Addr
						for {
							switch x := root.(type) {
							case *ssa.FieldAddr:
								root = x.X
								continue
							case *ssa.IndexAddr:
								root = x.X
								continue
							}
							break
						}
						switch root.(type) {
						case *ssa.FreeVar:
							fv.oblige("isolation", "store-captured", nil, in.Pos(), "false", "a request handler does not write a variable captured from the middleware constructor (shared between requests)")
						case *ssa.Global:
							fv.oblige("isolation", "store-global", nil, in.Pos(), "false", "a request handler does not write package state")
						}
						nChecked++
					case *ssa.MakeClosure:
						if depth < 2 {
							checkNoSharedStore(in.Fn.(*ssa.Function), depth+1)
						}
					}
				}
			}
		}
		checkNoSharedStore(fn, 0)
		ownUpdates := 0
		// scanUpdates checks every UpdateContext call of f (and of the closures f creates, e.g. deferred
		// ones that capture the request): its receiver must be zerolog.Ctx(ctx) for a context of this request
		var scanUpdates func(f *ssa.Function, isReqF func(ssa.Value) bool, depth int)
		scanUpdates = func(f *ssa.Function, isReqF func(ssa.Value) bool, depth int) {
			for _, b := range f.Blocks {
				for _, in := range b.Instrs {
					if mc, ok := in.(*ssa.MakeClosure); ok && depth < 2 {
						g := mc.Fn.(*ssa.Function)
						inner := func(v ssa.Value) bool {
							// a captured request: the free variable itself, or a load through a captured local that only holds r
							if fvv, ok := v.(*ssa.FreeVar); ok {
								for k, x := range g.FreeVars {
									if x == fvv && k < len(mc.Bindings) {
										return isReqF(mc.Bindings[k])
									}
								}
							}
							if u, ok := v.(*ssa.UnOp); ok {
								if fvv, ok := u.X.(*ssa.FreeVar); ok {
									for k, x := range g.FreeVars {
										if x == fvv && k < len(mc.Bindings) {
											if al, ok := mc.Bindings[k].(*ssa.Alloc); ok {
												// the local must only ever hold the request
												okAll, stores := true, 0
												for _, bb := range f.Blocks {
													for _, ii := range bb.Instrs {
														if st, ok := ii.(*ssa.Store); ok && st.Addr == ssa.Value(al) {
															stores++
															if !isReqF(st.Val) {
																okAll = false
															}
														}
													}
												}
												return okAll && stores > 0
											}
										}
									}
								}
							}
							return false
						}
						scanUpdates(g, inner, depth+1)
						continue
					}
					call, ok := in.(ssa.CallInstruction)
					if !ok {
						continue
					}
					cc := call.Common()
					h0 := cc.StaticCallee()
					if h0 == nil || h0.Name() != "UpdateContext" || len(cc.Args) == 0 {
						continue
					}
					nChecked++
					var ownCtx func(v ssa.Value, depth int) bool
					ownCtx = func(v ssa.Value, depth int) bool {
						if depth > 4 {
							return false
						}
						switch x := v.(type) {
						case *ssa.Call:
							h := x.Call.StaticCallee()
							if h == nil {
								return false
							}
							if h.Name() == "Context" && len(x.Call.Args) == 1 && isReqF(x.Call.Args[0]) {
								return true
							}
							if h.Name() == "CtxWithID" && h.Pkg == fn.Package() && len(x.Call.Args) == 2 {
								return ownCtx(x.Call.Args[0], depth+1)
							}
						case *ssa.Phi:
							for _, e := range x.Edges {
								if !ownCtx(e, depth+1) {
									return false
								}
							}
							return true
						}
						return false
					}
					ok2 := false
					if c1, isCall := cc.Args[0].(*ssa.Call); isCall {
						if g := c1.Call.StaticCallee(); g != nil && g.Name() == "Ctx" && g.Pkg != nil && g.Pkg.Pkg.Path() == p.ModPath && len(c1.Call.Args) == 1 {
							ok2 = ownCtx(c1.Call.Args[0], 0)
						}
					}
					if !ok2 {
						fv.oblige("isolation", "logger", nil, in.Pos(), "false", "the only logger a field handler updates is zerolog.Ctx(r.Context()) of its own request")
					} else {
						ownUpdates++
					}
				}
			}
		}
		scanUpdates(fn, isReq, 0)
		// a field handler (its constructor takes a fieldKey) puts its value on the request's own logger, in
		// place, so that every event of that request -- also the ones logged further out, e.g. by
		// AccessHandler -- carries it
		isField := false
		for q := fn.Parent(); q != nil; q = q.Parent() {
			for _, prm := range q.Params {
				if prm.Name() == "fieldKey" {
					isField = true
				}
			}
		}
		if isField {
			goal := "true"
			if ownUpdates == 0 {
				goal = "false"
			}
			fv.oblige("fieldinit", "field-on-request-logger", nil, fn.Pos(), goal, fmt.Sprintf("the field handler updates zerolog.Ctx(r.Context()) of its own request in place (%d UpdateContext calls found): every event of the request carries the field", ownUpdates))
		}
		fv.oblige("fieldinit", "isolation-checked", nil, fn.Pos(), "true", fmt.Sprintf("%d stores / UpdateContext calls checked", nChecked))
		r.fvs = append(r.fvs, fv)
		n++
	}
	r.notes = append(r.notes, fmt.Sprintf("hloghandlers sweep: %d request-handling closures", n))
	if n < 10 {
		r.errors = append(r.errors, fmt.Sprintf("hloghandlers sweep found only %d closures (expected at least 10)", n))
	}
}
