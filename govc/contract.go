package main

import (
	"fmt"
	"os"
	"path/filepath"
	"sort"
	"strconv"
	"strings"
	"unicode"
)

// ---------------------------------------------------------------------------
// Contract expression AST

type Expr interface{}

type EInt struct {
	V   int64
	U   uint64
	Big bool // value needs uint64
}
type EStr struct{ V string }
type EBool struct{ V bool }
type ENil struct{}
type EIdent struct{ Name string }
type EUnary struct {
	Op string
	X  Expr
}
type EBinary struct {
	Op   string
	X, Y Expr
}
type ECall struct {
	Fn   string
	Args []Expr
}
type EField struct {
	X    Expr
	Name string
}
type EIndex struct{ X, I Expr }
type ESliceE struct{ X, Lo, Hi Expr }
type EQuant struct {
	Forall bool
	Var    string
	Lo, Hi Expr
	Body   Expr
}

func exprString(e Expr) string {
	switch e := e.(type) {
	case EInt:
		if e.Big {
			return fmt.Sprint(e.U)
		}
		return fmt.Sprint(e.V)
	case EStr:
		return strconv.Quote(e.V)
	case EBool:
		return fmt.Sprint(e.V)
	case ENil:
		return "nil"
	case EIdent:
		return e.Name
	case EUnary:
		return e.Op + exprString(e.X)
	case EBinary:
		return "(" + exprString(e.X) + " " + e.Op + " " + exprString(e.Y) + ")"
	case ECall:
		var a []string
		for _, x := range e.Args {
			a = append(a, exprString(x))
		}
		return e.Fn + "(" + strings.Join(a, ", ") + ")"
	case EField:
		return exprString(e.X) + "." + e.Name
	case EIndex:
		return exprString(e.X) + "[" + exprString(e.I) + "]"
	case ESliceE:
		lo, hi := "", ""
		if e.Lo != nil {
			lo = exprString(e.Lo)
		}
		if e.Hi != nil {
			hi = exprString(e.Hi)
		}
		return exprString(e.X) + "[" + lo + ":" + hi + "]"
	case EQuant:
		q := "exists"
		if e.Forall {
			q = "forall"
		}
		return fmt.Sprintf("%s %s in %s..%s: %s", q, e.Var, exprString(e.Lo), exprString(e.Hi), exprString(e.Body))
	}
	return "?"
}

// ---------------------------------------------------------------------------
// Tokenizer

type tok_ struct {
	kind string // ident, int, str, char, op, eof
	s    string
	v    int64
	u    uint64
	big  bool
}

func tokenize(src string) ([]tok_, error) {
	var toks []tok_
	i := 0
	ops := []string{"<==>", "==>", "==", "!=", "<=", ">=", "&&", "||", "<<", ">>", "&^", "..", "+", "-", "*", "/", "%", "&", "|", "^", "!", "<", ">", "(", ")", "[", "]", ",", ".", ":", "?"}
	for i < len(src) {
		c := src[i]
		if c == ' ' || c == '\t' {
			i++
			continue
		}
		if unicode.IsLetter(rune(c)) || c == '_' {
			j := i
			for j < len(src) && (unicode.IsLetter(rune(src[j])) || unicode.IsDigit(rune(src[j])) || src[j] == '_' || src[j] == '$') {
				j++
			}
			toks = append(toks, tok_{kind: "ident", s: src[i:j]})
			i = j
			continue
		}
		if c >= '0' && c <= '9' {
			j := i
			for j < len(src) && (unicode.IsLetter(rune(src[j])) || unicode.IsDigit(rune(src[j])) || src[j] == '_') {
				j++
			}
			// do not swallow ".." range operator
			txt := strings.ReplaceAll(src[i:j], "_", "")
			u, err := strconv.ParseUint(txt, 0, 64)
			if err != nil {
				return nil, fmt.Errorf("bad number %q", src[i:j])
			}
			t := tok_{kind: "int", s: txt, u: u, v: int64(u)}
			if u > 1<<63-1 {
				t.big = true
			}
			toks = append(toks, t)
			i = j
			continue
		}
		if c == '\'' {
			j := i + 1
			for j < len(src) && src[j] != '\'' {
				if src[j] == '\\' {
					j++
				}
				j++
			}
			if j >= len(src) {
				return nil, fmt.Errorf("unterminated char literal")
			}
			r, _, _, err := strconv.UnquoteChar(src[i+1:j], '\'')
			if err != nil {
				return nil, fmt.Errorf("bad char literal %q: %v", src[i:j+1], err)
			}
			toks = append(toks, tok_{kind: "int", s: src[i : j+1], v: int64(r), u: uint64(r)})
			i = j + 1
			continue
		}
		if c == '"' {
			j := i + 1
			for j < len(src) && src[j] != '"' {
				if src[j] == '\\' {
					j++
				}
				j++
			}
			if j >= len(src) {
				return nil, fmt.Errorf("unterminated string literal")
			}
			s, err := strconv.Unquote(src[i : j+1])
			if err != nil {
				return nil, fmt.Errorf("bad string literal %s: %v", src[i:j+1], err)
			}
			toks = append(toks, tok_{kind: "str", s: s})
			i = j + 1
			continue
		}
		if c == '`' {
			j := strings.IndexByte(src[i+1:], '`')
			if j < 0 {
				return nil, fmt.Errorf("unterminated raw string")
			}
			toks = append(toks, tok_{kind: "str", s: src[i+1 : i+1+j]})
			i = i + j + 2
			continue
		}
		matched := false
		for _, op := range ops {
			if strings.HasPrefix(src[i:], op) {
				toks = append(toks, tok_{kind: "op", s: op})
				i += len(op)
				matched = true
				break
			}
		}
		if !matched {
			return nil, fmt.Errorf("unexpected character %q", c)
		}
	}
	toks = append(toks, tok_{kind: "eof"})
	return toks, nil
}

// ---------------------------------------------------------------------------
// Parser (precedence climbing)

type parser struct {
	toks []tok_
	pos  int
}

func (p *parser) peek() tok_ { return p.toks[p.pos] }
func (p *parser) next() tok_ { t := p.toks[p.pos]; p.pos++; return t }
func (p *parser) isOp(s string) bool {
	t := p.peek()
	return t.kind == "op" && t.s == s
}
func (p *parser) expectOp(s string) error {
	if !p.isOp(s) {
		return fmt.Errorf("expected %q, found %q", s, p.peek().s)
	}
	p.next()
	return nil
}

func parseExpr(src string) (Expr, error) {
	toks, err := tokenize(src)
	if err != nil {
		return nil, err
	}
	p := &parser{toks: toks}
	e, err := p.parseTop()
	if err != nil {
		return nil, err
	}
	if p.peek().kind != "eof" {
		return nil, fmt.Errorf("unexpected %q after expression", p.peek().s)
	}
	return e, nil
}

func (p *parser) parseTop() (Expr, error) {
	t := p.peek()
	if t.kind == "ident" && (t.s == "forall" || t.s == "exists") {
		p.next()
		v := p.next()
		if v.kind != "ident" {
			return nil, fmt.Errorf("expected bound variable")
		}
		in := p.next()
		if in.kind != "ident" || in.s != "in" {
			return nil, fmt.Errorf("expected 'in'")
		}
		lo, err := p.parseBin(5)
		if err != nil {
			return nil, err
		}
		if err := p.expectOp(".."); err != nil {
			return nil, err
		}
		hi, err := p.parseBin(5)
		if err != nil {
			return nil, err
		}
		if err := p.expectOp(":"); err != nil {
			return nil, err
		}
		body, err := p.parseTop()
		if err != nil {
			return nil, err
		}
		return EQuant{Forall: t.s == "forall", Var: v.s, Lo: lo, Hi: hi, Body: body}, nil
	}
	return p.parseBin(0)
}

var binPrec = map[string]int{
	"<==>": 0, "==>": 1, "||": 2, "&&": 3,
	"==": 4, "!=": 4, "<": 4, "<=": 4, ">": 4, ">=": 4,
	"+": 5, "-": 5, "|": 5, "^": 5,
	"*": 6, "/": 6, "%": 6, "<<": 6, ">>": 6, "&": 6, "&^": 6,
}

func (p *parser) parseBin(min int) (Expr, error) {
	x, err := p.parseUnary()
	if err != nil {
		return nil, err
	}
	for {
		t := p.peek()
		if t.kind != "op" {
			return x, nil
		}
		prec, ok := binPrec[t.s]
		if !ok || prec < min {
			return x, nil
		}
		p.next()
		var y Expr
		if t.s == "==>" {
			// right associative; the consequent may be a quantifier
			if pk := p.peek(); pk.kind == "ident" && (pk.s == "forall" || pk.s == "exists") {
				y, err = p.parseTop()
			} else {
				y, err = p.parseBin(prec)
			}
		} else {
			y, err = p.parseBin(prec + 1)
		}
		if err != nil {
			return nil, err
		}
		x = EBinary{Op: t.s, X: x, Y: y}
	}
}

func (p *parser) parseUnary() (Expr, error) {
	t := p.peek()
	if t.kind == "op" && (t.s == "!" || t.s == "-" || t.s == "^") {
		p.next()
		x, err := p.parseUnary()
		if err != nil {
			return nil, err
		}
		return EUnary{Op: t.s, X: x}, nil
	}
	return p.parsePostfix()
}

func (p *parser) parsePostfix() (Expr, error) {
	x, err := p.parsePrimary()
	if err != nil {
		return nil, err
	}
	for {
		switch {
		case p.isOp("."):
			p.next()
			id := p.next()
			if id.kind != "ident" {
				return nil, fmt.Errorf("expected field name after '.'")
			}
			x = EField{X: x, Name: id.s}
		case p.isOp("["):
			p.next()
			var lo, hi Expr
			if !p.isOp(":") {
				lo, err = p.parseTop()
				if err != nil {
					return nil, err
				}
			}
			if p.isOp(":") {
				p.next()
				if !p.isOp("]") {
					hi, err = p.parseTop()
					if err != nil {
						return nil, err
					}
				}
				if err := p.expectOp("]"); err != nil {
					return nil, err
				}
				x = ESliceE{X: x, Lo: lo, Hi: hi}
			} else {
				if err := p.expectOp("]"); err != nil {
					return nil, err
				}
				x = EIndex{X: x, I: lo}
			}
		case p.isOp("("):
			// call: callee must be an identifier or dotted name
			name := ""
			switch c := x.(type) {
			case EIdent:
				name = c.Name
			case EField:
				name = exprString(c)
			default:
				return nil, fmt.Errorf("cannot call %s", exprString(x))
			}
			p.next()
			var args []Expr
			for !p.isOp(")") {
				a, err := p.parseTop()
				if err != nil {
					return nil, err
				}
				args = append(args, a)
				if p.isOp(",") {
					p.next()
				} else {
					break
				}
			}
			if err := p.expectOp(")"); err != nil {
				return nil, err
			}
			x = ECall{Fn: name, Args: args}
		default:
			return x, nil
		}
	}
}

func (p *parser) parsePrimary() (Expr, error) {
	t := p.next()
	switch t.kind {
	case "int":
		return EInt{V: t.v, U: t.u, Big: t.big}, nil
	case "str":
		return EStr{V: t.s}, nil
	case "ident":
		switch t.s {
		case "true":
			return EBool{true}, nil
		case "false":
			return EBool{false}, nil
		case "nil":
			return ENil{}, nil
		case "forall", "exists":
			p.pos--
			return p.parseTop()
		}
		return EIdent{Name: t.s}, nil
	case "op":
		if t.s == "(" {
			e, err := p.parseTop()
			if err != nil {
				return nil, err
			}
			if err := p.expectOp(")"); err != nil {
				return nil, err
			}
			return e, nil
		}
	}
	return nil, fmt.Errorf("unexpected %q", t.s)
}

// ---------------------------------------------------------------------------
// Contract files

type Clause struct {
	Assumed bool // `ensures!`: used by callers, not proved for the function itself (listed in the evidence)
	Kind  string // requires, ensures, invariant, assert, decreases
	Props []string
	E     Expr
	Src   string
	File  string
	Line  int
	Idx   int // ordinal among clauses of its kind in the block
}

type LoopSpec struct {
	N         int
	Invs      []*Clause
	Decreases *Clause
}

type SpecFunc struct {
	Name    string
	Params  []string
	PSorts  []string
	RetSort string
	Def     Expr // nil = uninterpreted
	Src     string
}

type Contract struct {
	Key      string
	Kind     string // func, iface, var
	Pkg      string
	Params   []string
	Results  []string
	Mode     Mode
	Props    []string
	Requires []*Clause
	Ensures  []*Clause
	Modifies []string
	HasMod   bool
	Loops    map[int]*LoopSpec
	Sites    map[int][]*Clause // `site append N: assert E` / `site append N: cov += E` (N-th append in source order)
	Flags    map[string]string
	Trusted  bool
	File     string
	Line     int
}

type GlobalInv struct {
	Assumed bool // `config`: a configuration assumption, never checked
	Pkg   string
	Name  string
	E     Expr
	Src   string
	File  string
	Line  int
	Props []string
}

type Axiom struct {
	E    Expr
	Src  string
	File string
	Line int
}

type Contracts struct {
	ByKey   map[string]*Contract
	Specs   map[string]*SpecFunc
	Axioms  []*Axiom
	Globals []*GlobalInv
	BinaryLog bool
	Tracked map[string]bool
	Pools   map[string]string // global holding a *sync.Pool -> type of the pooled objects
	TypeInvs map[string]string // dynamic type -> spec predicate assumed for every value of that type taken out of an interface
	Effects []*EffectDecl      // effect <name> <kind> <words...> [: reason]
	Files   []string
}

// EffectDecl is one line of an effect contract (DESIGN C07): the entry set,
// the dynamic calls the property itself excludes, the library functions
// trusted to have the effect, and scoped exemptions with their reason.
type EffectDecl struct {
	Effect string // allocfree
	Kind   string // entry, dynamic, trusted, exempt
	Words  []string
	Reason string
	Pkg    string
	File   string
	Line   int
}

func newContracts() *Contracts {
	return &Contracts{ByKey: map[string]*Contract{}, Specs: map[string]*SpecFunc{}, Tracked: map[string]bool{}, Pools: map[string]string{}, TypeInvs: map[string]string{}}
}

var clauseKeywords = map[string]bool{
	"typeinv": true, "pool": true, "config": true, "package": true, "func": true, "dyn": true, "iface": true, "var": true, "global": true, "spec": true, "axiom": true, "track": true, "effect": true,
	"props": true, "arith": true, "requires": true, "ensures": true, "ensures!": true, "modifies": true, "loop": true, "site": true,
	"invariant": true, "decreases": true, "assert": true, "flag": true, "trusted": true,
}

// qualify turns a package-relative function key into the ssa String() form.
func qualify(pkg, key string) string {
	if pkg == "" {
		return key
	}
	if strings.HasPrefix(key, "(*") {
		return "(*" + pkg + "." + key[2:]
	}
	if strings.HasPrefix(key, "(") {
		return "(" + pkg + "." + key[1:]
	}
	return pkg + "." + key
}

func stripComment(s string) string {
	inq := byte(0)
	for i := 0; i+1 < len(s); i++ {
		c := s[i]
		if inq != 0 {
			if c == '\\' {
				i++
			} else if c == inq {
				inq = 0
			}
			continue
		}
		if c == '"' || c == '\'' || c == '`' {
			inq = c
			continue
		}
		if c == '/' && s[i+1] == '/' && (i == 0 || s[i-1] == ' ' || s[i-1] == '\t') {
			return strings.TrimRight(s[:i], " \t")
		}
	}
	return s
}

// parseProps parses an optional leading "[C01,C02]" tag.
func parseProps(s string) ([]string, string) {
	s = strings.TrimSpace(s)
	if strings.HasPrefix(s, "[C") {
		j := strings.IndexByte(s, ']')
		if j > 0 {
			var ps []string
			for _, p := range strings.Split(s[1:j], ",") {
				ps = append(ps, strings.TrimSpace(p))
			}
			return ps, strings.TrimSpace(s[j+1:])
		}
	}
	return nil, s
}

func splitNames(s string) []string {
	var out []string
	for _, p := range strings.Split(s, ",") {
		p = strings.TrimSpace(p)
		if p != "" {
			out = append(out, p)
		}
	}
	return out
}

// loadContractFile parses one contract file. pkg is the import path the
// relative keys are qualified with ("" for the trusted file, which uses full
// keys).
func (cs *Contracts) loadContractFile(file, pkg string, trusted bool) error {
	data, err := os.ReadFile(file)
	if err != nil {
		return err
	}
	// contract files may be specific to one encoder build
	for _, l := range strings.SplitN(string(data), "\n", 6) {
		if strings.HasPrefix(l, "//go:build") {
			if strings.Contains(l, "!binary_log") && cs.BinaryLog {
				return nil
			}
			if !strings.Contains(l, "!binary_log") && strings.Contains(l, "binary_log") && !cs.BinaryLog {
				return nil
			}
		}
	}
	cs.Files = append(cs.Files, file)
	type rawLine struct {
		text string
		line int
	}
	var lines []rawLine
	for i, l := range strings.Split(string(data), "\n") {
		t := strings.TrimSpace(l)
		if !strings.HasPrefix(t, "//@") {
			continue
		}
		t = stripComment(strings.TrimSpace(t[3:]))
		if t == "" {
			continue
		}
		first := t
		if j := strings.IndexAny(t, " \t"); j > 0 {
			first = t[:j]
		}
		if !clauseKeywords[first] && len(lines) > 0 {
			lines[len(lines)-1].text += " " + t
			continue
		}
		lines = append(lines, rawLine{t, i + 1})
	}
	var cur *Contract
	var curLoop *LoopSpec
	fail := func(ln int, f string, a ...interface{}) error {
		return fmt.Errorf("%s:%d: %s", file, ln, fmt.Sprintf(f, a...))
	}
	for _, rl := range lines {
		t := rl.text
		kw := t
		rest := ""
		if j := strings.IndexAny(t, " \t"); j > 0 {
			kw, rest = t[:j], strings.TrimSpace(t[j+1:])
		}
		switch kw {
		case "package":
			pkg = rest
			cur = nil
		case "func", "iface", "var", "dyn":
			// KEY(params) results
			cp := strings.LastIndexByte(rest, ')')
			if cp < 0 {
				return fail(rl.line, "missing parameter list")
			}
			depth := 0
			op := -1
			for i := cp; i >= 0; i-- {
				if rest[i] == ')' {
					depth++
				} else if rest[i] == '(' {
					depth--
					if depth == 0 {
						op = i
						break
					}
				}
			}
			if op < 0 {
				return fail(rl.line, "unbalanced parentheses")
			}
			key := strings.TrimSpace(rest[:op])
			c := &Contract{Kind: kw, Pkg: pkg, Params: splitNames(rest[op+1 : cp]), Results: splitNames(rest[cp+1:]),
				Loops: map[int]*LoopSpec{}, Flags: map[string]string{}, Trusted: trusted, File: file, Line: rl.line}
			switch kw {
			case "func":
				c.Key = qualify(pkg, key)
			case "iface":
				c.Key = "iface:" + key
			case "var":
				c.Key = "var:" + qualifyVar(pkg, key)
			case "dyn":
				c.Key = key
			}
			if _, dup := cs.ByKey[c.Key]; dup {
				return fail(rl.line, "duplicate contract for %s", c.Key)
			}
			cs.ByKey[c.Key] = c
			cur, curLoop = c, nil
		case "global", "config":
			props, body := parseProps(rest)
			e, err := parseExpr(body)
			if err != nil {
				return fail(rl.line, "%v in %q", err, body)
			}
			cs.Globals = append(cs.Globals, &GlobalInv{Pkg: pkg, E: e, Src: body, File: file, Line: rl.line, Props: props, Assumed: kw == "config"})
			cur = nil
		case "typeinv":
			f := strings.Fields(rest)
			if len(f) != 2 {
				return fail(rl.line, "typeinv <type> <spec predicate>")
			}
			cs.TypeInvs[f[0]] = f[1]
			cur = nil
		case "pool":
			f := strings.Fields(rest)
			if len(f) != 2 && len(f) != 3 {
				return fail(rl.line, "pool <global> <type> [<spec predicate every pooled value satisfies>]")
			}
			cs.Pools[qualifyVar(pkg, f[0])] = strings.Join(f[1:], " ")
			cur = nil
		case "effect":
			body, reason := rest, ""
			if j := strings.Index(rest, " : "); j >= 0 {
				body, reason = rest[:j], strings.TrimSpace(rest[j+3:])
			}
			f := strings.Fields(body)
			if len(f) < 3 {
				return fail(rl.line, "effect <name> <entry|dynamic|trusted|exempt> <words...> [: reason]")
			}
			cs.Effects = append(cs.Effects, &EffectDecl{Effect: f[0], Kind: f[1], Words: f[2:], Reason: reason, Pkg: pkg, File: file, Line: rl.line})
			cur = nil
		case "track":
			for _, n := range splitNames(rest) {
				cs.Tracked[n] = true
			}
			cur = nil
		case "spec":
			// spec name(a int, b bytes) sort [= expr]
			op := strings.IndexByte(rest, '(')
			cp := strings.IndexByte(rest, ')')
			if op < 0 || cp < op {
				return fail(rl.line, "bad spec declaration")
			}
			sf := &SpecFunc{Name: strings.TrimSpace(rest[:op]), Src: rest}
			for _, p := range splitNames(rest[op+1 : cp]) {
				f := strings.Fields(p)
				if len(f) != 2 {
					return fail(rl.line, "spec parameter %q needs a name and a sort", p)
				}
				sf.Params = append(sf.Params, f[0])
				sf.PSorts = append(sf.PSorts, f[1])
			}
			tail := strings.TrimSpace(rest[cp+1:])
			if j := strings.Index(tail, "="); j >= 0 && !strings.HasPrefix(tail[j:], "==") {
				sf.RetSort = strings.TrimSpace(tail[:j])
				e, err := parseExpr(strings.TrimSpace(tail[j+1:]))
				if err != nil {
					return fail(rl.line, "%v", err)
				}
				sf.Def = e
			} else {
				sf.RetSort = tail
			}
			cs.Specs[sf.Name] = sf
			cur = nil
		case "axiom":
			e, err := parseExpr(rest)
			if err != nil {
				return fail(rl.line, "%v in %q", err, rest)
			}
			cs.Axioms = append(cs.Axioms, &Axiom{E: e, Src: rest, File: file, Line: rl.line})
			cur = nil
		default:
			if cur == nil {
				return fail(rl.line, "clause %q outside a contract block", kw)
			}
			switch kw {
			case "props":
				cur.Props = strings.Fields(strings.ReplaceAll(rest, ",", " "))
			case "arith":
				switch rest {
				case "bv":
					cur.Mode = ModeBV
				case "int":
					cur.Mode = ModeInt
				default:
					return fail(rl.line, "arith must be bv or int")
				}
			case "trusted":
				cur.Trusted = true
			case "flag":
				f := strings.SplitN(rest, " ", 2)
				v := "true"
				if len(f) == 2 {
					v = strings.TrimSpace(f[1])
				}
				cur.Flags[f[0]] = v
			case "modifies":
				cur.HasMod = true
				if rest != "nothing" {
					cur.Modifies = append(cur.Modifies, splitNames(rest)...)
				}
			case "site":
				// site append N: assert [props] E   |   site append N: cov += E
				f := strings.SplitN(rest, ":", 2)
				hd := strings.Fields(f[0])
				if len(f) != 2 || len(hd) != 2 || hd[0] != "append" {
					return fail(rl.line, "site append <N>: assert <expr> | cov += <expr>")
				}
				n, err := strconv.Atoi(hd[1])
				if err != nil {
					return fail(rl.line, "bad site ordinal %q", hd[1])
				}
				body := strings.TrimSpace(f[1])
				kind := ""
				switch {
				case strings.HasPrefix(body, "assert "):
					kind, body = "site-assert", strings.TrimSpace(body[len("assert "):])
				case strings.HasPrefix(body, "cov += "):
					kind, body = "site-cov", strings.TrimSpace(body[len("cov += "):])
				default:
					return fail(rl.line, "site append <N>: assert <expr> | cov += <expr>")
				}
				props, body2 := parseProps(body)
				e, err := parseExpr(body2)
				if err != nil {
					return fail(rl.line, "%v in %q", err, body2)
				}
				if cur.Sites == nil {
					cur.Sites = map[int][]*Clause{}
				}
				cur.Sites[n] = append(cur.Sites[n], &Clause{Kind: kind, Props: props, E: e, Src: body2, File: file, Line: rl.line, Idx: len(cur.Sites[n]) + 1})
			case "loop":
				n, err := strconv.Atoi(strings.TrimSuffix(rest, ":"))
				if err != nil {
					return fail(rl.line, "bad loop ordinal %q", rest)
				}
				curLoop = &LoopSpec{N: n}
				cur.Loops[n] = curLoop
			case "requires", "ensures", "ensures!", "invariant", "decreases", "assert":
				props, body := parseProps(rest)
				e, err := parseExpr(body)
				if err != nil {
					return fail(rl.line, "%v in %q", err, body)
				}
				cl := &Clause{Kind: kw, Props: props, E: e, Src: body, File: file, Line: rl.line}
				switch kw {
				case "requires":
					cl.Idx = len(cur.Requires) + 1
					cur.Requires = append(cur.Requires, cl)
				case "ensures", "ensures!":
					cl.Kind = "ensures"
					cl.Assumed = kw == "ensures!"
					cl.Idx = len(cur.Ensures) + 1
					cur.Ensures = append(cur.Ensures, cl)
				case "invariant":
					if curLoop == nil {
						return fail(rl.line, "invariant outside a loop block")
					}
					cl.Idx = len(curLoop.Invs) + 1
					curLoop.Invs = append(curLoop.Invs, cl)
				case "decreases":
					if curLoop == nil {
						return fail(rl.line, "decreases outside a loop block")
					}
					curLoop.Decreases = cl
				}
			}
		}
	}
	return nil
}

func qualifyVar(pkg, name string) string {
	if strings.Contains(name, ".") || pkg == "" {
		return name
	}
	return pkg + "." + name
}

// loadAllContracts reads every zz_contracts_verif.go below root and the
// trusted contract files of the verifier.
func loadAllContracts(root, modPath, trustedDir string, binaryLog bool) (*Contracts, error) {
	cs := newContracts()
	cs.BinaryLog = binaryLog
	var files []string
	filepath.Walk(root, func(p string, info os.FileInfo, err error) error {
		if err != nil {
			return nil
		}
		if info.IsDir() && (info.Name() == ".git" || info.Name() == "testdata") {
			return filepath.SkipDir
		}
		if !info.IsDir() && strings.HasPrefix(info.Name(), "zz_contracts") && strings.HasSuffix(info.Name(), "_verif.go") {
			files = append(files, p)
		}
		return nil
	})
	sort.Strings(files)
	for _, f := range files {
		rel, _ := filepath.Rel(root, filepath.Dir(f))
		pkg := modPath
		if rel != "." {
			pkg = modPath + "/" + filepath.ToSlash(rel)
		}
		if err := cs.loadContractFile(f, pkg, false); err != nil {
			return nil, err
		}
	}
	tfiles, _ := filepath.Glob(filepath.Join(trustedDir, "*.contracts"))
	sort.Strings(tfiles)
	for _, f := range tfiles {
		if err := cs.loadContractFile(f, "", true); err != nil {
			return nil, err
		}
	}
	return cs, nil
}

func hasProp(ps []string, p string) bool {
	for _, x := range ps {
		if x == p {
			return true
		}
	}
	return false
}
